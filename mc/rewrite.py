"""Engine E2: explicit-state breadth-first search over semantics-preserving rewrites.

A *state* is a system (shell list, optional transformation, environment of points / charges /
origin).  A *rewrite* maps a state to a new state together with the linear map L (n_new x n_old)
that the new basis functions are of the old ones.  The *law* checked on every edge is

        X(new)[i, j, ...] = sum L[i, a] L[j, b] ... X(old)[a, b, ...]          (every basis index)
        density-type fields(new, gamma) = density-type fields(old, L^T gamma L)

for every public quantity.  Both sides are outputs of the real implementation (differential
oracle); states are de-duplicated by a canonical key, so laws are also checked from non-initial
states.
"""
import collections
import hashlib
import json

import numpy as np

from .core import canon, gb, gshell, hvec
from .ref.shells import nbasis


class System:
    def __init__(self, shells, T=None, env=None):
        self.shells = list(shells)
        self.T = None if T is None else np.asarray(T, dtype=float)
        self.env = env or {}

    def key(self):
        d = {"shells": [s.to_json() for s in self.shells],
             "T": None if self.T is None else np.round(self.T, 12).tolist(),
             "env": {k: (np.round(np.asarray(v, dtype=float), 12).tolist() if not isinstance(v, (str, int, float)) else v)
                     for k, v in sorted(self.env.items()) if k != "fixed_basis"}}
        return hashlib.sha1(json.dumps(d, sort_keys=True).encode()).hexdigest()

    def nfun(self):
        return nbasis(self.shells) if self.T is None else self.T.shape[0]

    def with_(self, shells=None, T="keep", env=None):
        return System(self.shells if shells is None else shells, self.T if isinstance(T, str) else T,
                      dict(self.env) if env is None else env)


def default_env(shells, tag="env"):
    c0 = np.array(shells[0].center)
    cl = np.array(shells[-1].center)
    pts = np.array([c0 + np.array([0.0, 0.4, -0.2]), (c0 + cl) / 2 + np.array([0.1, 0.0, 0.3])]
                   + [np.array(hvec("%s-pt%d" % (tag, i), 3, -1.5, 1.5)) for i in range(3)])
    return {
        "points": pts,
        "charge_coords": np.array([c0, (c0 + cl) / 2 + 0.05, np.array(hvec(tag + "-q", 3, -2, 2))]),
        "charges": np.array([1.0, -2.5, 6.0]),
        "origin": np.array(hvec(tag + "-o", 3, -1, 1)),
        "orders": np.array([[0, 0, 0], [1, 0, 0], [0, 1, 1], [2, 0, 1], [0, 3, 0]]),
    }


# ------------------------------------------------------------------------------------------------
# quantities
# ------------------------------------------------------------------------------------------------
def _kw(T):
    return {} if T is None else {"transform": T}


def integral_quantities(eri_cap=30, names=None):
    """name -> (callable(g, env, T) -> array, basis axes, kind)"""
    gb()
    from gbasis.evals.eval import evaluate_basis
    from gbasis.evals.eval_deriv import evaluate_deriv_basis
    from gbasis.integrals.angular_momentum import angular_momentum_integral
    from gbasis.integrals.electron_repulsion import electron_repulsion_integral
    from gbasis.integrals.kinetic_energy import kinetic_energy_integral
    from gbasis.integrals.moment import moment_integral
    from gbasis.integrals.momentum import momentum_integral
    from gbasis.integrals.nuclear_electron_attraction import nuclear_electron_attraction_integral
    from gbasis.integrals.overlap import overlap_integral
    from gbasis.integrals.overlap_asymm import overlap_integral_asymmetric
    from gbasis.integrals.point_charge import point_charge_integral

    Q = collections.OrderedDict()
    Q["overlap"] = (lambda g, e, T: overlap_integral(g, **_kw(T)), (0, 1))
    Q["overlap_asymmetric"] = (lambda g, e, T: overlap_integral_asymmetric(g, g, T, T), (0, 1))
    # second basis set fixed (a Cartesian d and a spherical p shell): only the first index follows the rewrite
    Q["overlap_asymmetric_vs_fixed"] = (
        lambda g, e, T: overlap_integral_asymmetric(g, [gshell(s_) for s_ in e["fixed_basis"]], T, None), (0,))
    Q["overlap_asymmetric_fixed_first"] = (
        lambda g, e, T: np.swapaxes(overlap_integral_asymmetric([gshell(s_) for s_ in e["fixed_basis"]], g, None, T), 0, 1), (0,))
    Q["kinetic"] = (lambda g, e, T: kinetic_energy_integral(g, **_kw(T)), (0, 1))
    Q["point_charge"] = (lambda g, e, T: point_charge_integral(g, e["charge_coords"], e["charges"], **_kw(T)), (0, 1))
    Q["nuclear"] = (lambda g, e, T: nuclear_electron_attraction_integral(g, e["charge_coords"], e["charges"], **_kw(T)), (0, 1))
    Q["moment"] = (lambda g, e, T: moment_integral(g, e["origin"], e["orders"], **_kw(T)), (0, 1))
    Q["momentum"] = (lambda g, e, T: momentum_integral(g, **_kw(T)), (0, 1))
    Q["angular_momentum"] = (lambda g, e, T: angular_momentum_integral(g, **_kw(T)), (0, 1))
    Q["eri_chemist"] = (lambda g, e, T: electron_repulsion_integral(g, notation="chemist", **_kw(T)), (0, 1, 2, 3))
    Q["eri_physicist"] = (lambda g, e, T: electron_repulsion_integral(g, notation="physicist", **_kw(T)), (0, 1, 2, 3))
    Q["evaluate_basis"] = (lambda g, e, T: evaluate_basis(g, e["points"], **_kw(T)), (0,))
    for od in ((1, 0, 0), (0, 1, 1), (2, 0, 1)):
        Q["evaluate_deriv_basis%s" % (od,)] = (
            lambda g, e, T, od=od: evaluate_deriv_basis(g, e["points"], np.array(od), **_kw(T)), (0,))
    Q["evaluate_deriv_basis_direct(0, 2, 0)"] = (
        lambda g, e, T: evaluate_deriv_basis(g, e["points"], np.array([0, 2, 0]), deriv_type="direct", **_kw(T)), (0,))
    if names is not None:
        Q = collections.OrderedDict((k, v) for k, v in Q.items() if k in names)
    return Q


def density_quantities(names=None):
    """name -> callable(g, env, T, gamma) -> array   (fields that depend on a density matrix)"""
    gb()
    from gbasis.evals import density as dn
    from gbasis.evals import stress_tensor as st
    from gbasis.evals.electrostatic_potential import electrostatic_potential

    Q = collections.OrderedDict()
    Q["density"] = lambda g, e, T, gam: dn.evaluate_density(gam, g, e["points"], **_kw(T))
    Q["deriv_density(1,2,0)"] = lambda g, e, T, gam: dn.evaluate_deriv_density(np.array([1, 2, 0]), gam, g, e["points"], **_kw(T))
    Q["density_gradient"] = lambda g, e, T, gam: dn.evaluate_density_gradient(gam, g, e["points"], **_kw(T))
    Q["density_laplacian"] = lambda g, e, T, gam: dn.evaluate_density_laplacian(gam, g, e["points"], **_kw(T))
    Q["density_hessian"] = lambda g, e, T, gam: dn.evaluate_density_hessian(gam, g, e["points"], **_kw(T))
    Q["posdef_ked"] = lambda g, e, T, gam: dn.evaluate_posdef_kinetic_energy_density(gam, g, e["points"], **_kw(T))
    Q["general_ked"] = lambda g, e, T, gam: dn.evaluate_general_kinetic_energy_density(gam, g, e["points"], 0.3, **_kw(T))
    Q["electrostatic_potential"] = lambda g, e, T, gam: electrostatic_potential(
        g, gam, e["points"], e["charge_coords"], e["charges"], threshold_dist=0.0, **_kw(T))
    Q["stress_tensor"] = lambda g, e, T, gam: st.evaluate_stress_tensor(gam, g, e["points"], alpha=0.4, beta=0.7, **_kw(T))
    Q["ehrenfest_force"] = lambda g, e, T, gam: st.evaluate_ehrenfest_force(gam, g, e["points"], alpha=0.4, beta=0.7, **_kw(T))
    Q["ehrenfest_hessian"] = lambda g, e, T, gam: st.evaluate_ehrenfest_hessian(gam, g, e["points"], alpha=0.4, beta=0.7, **_kw(T))
    if names is not None:
        Q = collections.OrderedDict((k, v) for k, v in Q.items() if k in names)
    return Q


def wide_range_shell(shells):
    """configuration class of the recorded finding F2: a shell with l >= 2 whose own primitives span more than three
    orders of magnitude (both pairs of a repulsion quartet then mix tight and diffuse primitives)"""
    return any(s.l >= 2 and max(s.exps) / min(s.exps) >= 1.0e3 for s in shells)


def apply_L(arr, L, axes):
    out = np.asarray(arr)
    for ax in axes:
        out = np.moveaxis(np.tensordot(L, out, axes=(1, ax)), 0, ax)
    return out


class Explorer:
    """BFS with per-state caching of the integral observations."""

    def __init__(self, o, iq, dq, tol=1e-10, eri_tol=2e-6, eri_cap=26, dens_every=1):
        self.o = o
        self.iq = iq
        self.dq = dq
        self.tol = tol
        self.eri_tol = eri_tol
        self.eri_cap = eri_cap
        self.cache = {}
        self.gcache = {}
        self.states = 0
        self.edges = 0
        self.dens_every = dens_every

    def gobj(self, st):
        k = st.key()
        if k not in self.gcache:
            self.gcache[k] = [gshell(s) for s in st.shells]
        return self.gcache[k]

    def observe(self, st):
        k = st.key()
        if k in self.cache:
            return self.cache[k]
        g = self.gobj(st)
        out = {}
        nb = nbasis(st.shells)
        for name, (fn, axes) in self.iq.items():
            if name.startswith("eri") and nb > self.eri_cap:
                continue
            if "fixed" in name and "fixed_basis" not in st.env:
                continue
            out[name] = fn(g, st.env, st.T)
            self.o.call()
        self.cache[k] = out
        self.states += 1
        return out

    def check_edge(self, old, new, L, label, extra=None):
        """extra: optional dict name -> callable(pred_array) applying a further (tensor) action."""
        self.edges += 1
        a = self.observe(old)
        b = self.observe(new)
        smp = self.o.notes.setdefault("_samples", [])
        if len(smp) < 3:
            smp.append({"edge": label, "from_state": old.key()[:12], "to_state": new.key()[:12],
                        "from_shells": [[s_.l, s_.ctype, list(s_.exps), len(s_.coeffs[0])] for s_ in old.shells],
                        "to_shells": [[s_.l, s_.ctype, list(s_.exps), len(s_.coeffs[0])] for s_ in new.shells],
                        "transformation_attached": new.T is not None, "L_shape": list(np.shape(L)),
                        "quantities_compared": [n_ for n_ in self.iq if n_ in a and n_ in b]})
        L = np.asarray(L, dtype=float)
        aL = np.abs(L)
        allpred = {name: apply_L(a[name], L, axes) for name, (fn, axes) in self.iq.items() if name in a}
        allamp = {name: apply_L(np.abs(a[name]), aL, axes) for name, (fn, axes) in self.iq.items() if name in a}
        for name, (fn, axes) in self.iq.items():
            if name not in a or name not in b:
                continue
            pred = allpred[name]
            amp = allamp[name]
            if extra and name in extra:
                pred = extra[name](pred, allpred)
                amp = extra[name + "#abs"](amp, allamp) if name + "#abs" in extra else np.abs(pred) + amp * 0 if amp.shape == pred.shape else np.abs(pred)
            if name.startswith("eri"):
                # Schwarz scale of the predicted tensor
                d = np.sqrt(np.abs(np.einsum("abab->ab", pred if name == "eri_chemist" else pred.transpose(0, 2, 1, 3))))
                sc = d[:, :, None, None] * d[None, None, :, :]
                if name == "eri_physicist":
                    sc = sc.transpose(0, 2, 1, 3)
                self.o.cmp("%s: %s" % (label, name), b[name], pred, self.eri_tol, sc + 1e-9 * amp,
                           key=("known-F2/" if wide_range_shell(old.shells + new.shells) else "") + name)
            else:
                # condition scale: the law applied to absolute values (no benefit from cancellation)
                sc = amp + 1e-3 * float(np.max(np.abs(pred)) if pred.size else 0.0)
                if extra and name + "#scale" in extra:
                    sc = sc + extra[name + "#scale"](allpred)
                self.o.cmp("%s: %s" % (label, name), b[name], pred, self.tol, sc, key=name)
        if self.dq and (self.edges % self.dens_every == 0):
            n_new = new.nfun()
            X = np.array([hvec("gam%d-%d" % (n_new, r), n_new, -1, 1) for r in range(n_new)])
            gam_new = X @ X.T / n_new
            Lfun = L
            # L maps old *observed* functions (after old.T) to new observed functions (after new.T)
            gam_old = Lfun.T @ gam_new @ Lfun
            gn = self.gobj(new)
            go = self.gobj(old)
            for name, fn in self.dq.items():
                vb = fn(gn, new.env, new.T, gam_new)
                va = fn(go, old.env, old.T, gam_old)
                self.o.call(2)
                if extra and name in extra:
                    va = extra[name](va, None)
                sc = float(np.max(np.abs(va))) + 1e-300
                self.o.cmp("%s: %s" % (label, name), vb, va, getattr(self, "dq_tol", None) or max(self.tol, 1e-9), sc, key=name)

    def bfs(self, seed, rewrites, depth):
        """rewrites: callable(state) -> iterable of (label, new_state, L[, extra])"""
        seen = {seed.key()}
        e0 = self.edges
        frontier = collections.deque([(seed, 0)])
        self.observe(seed)
        while frontier:
            st, dpt = frontier.popleft()
            if dpt >= depth:
                continue
            for item in rewrites(st):
                label, nxt, L = item[:3]
                extra = item[3] if len(item) > 3 else None
                self.check_edge(st, nxt, L, label, extra)
                k = nxt.key()
                if k not in seen:
                    seen.add(k)
                    frontier.append((nxt, dpt + 1))
        self.o.notes["bfs_states"] = self.o.notes.get("bfs_states", 0) + len(seen)
        self.o.notes["bfs_edges"] = self.o.notes.get("bfs_edges", 0) + self.edges - e0
        return seen


def post_bfs(results, tier):
    st = sum(r.get("notes", {}).get("bfs_states", 0) for r in results)
    ed = sum(r.get("notes", {}).get("bfs_edges", 0) for r in results)
    return {"coverage": {"states": st, "transitions": ed, "api_calls": sum(r["calls"] for r in results),
                         "seed_configurations": len(results)}}
