"""Regenerate /verif/MANIFEST.json from the table below (keeps it schema-valid at all times)."""
import json
import os

VERIF = os.path.dirname(os.path.dirname(os.path.abspath(__file__)))
PY = "/venv/bin/python"

E1 = "E1 product-space explorer (mc/core.py + mc/props)"
E2 = "E2 rewrite-graph BFS (mc/rewrite.py)"
E3 = "E3 call-history BFS (mc/history.py)"

NOTE_REF = ("trusted base: independent reference model in mc/ref (closed forms / McMurchie-Davidson / polynomial "
            "differentiation, extended precision, self-tested against 34-digit mpmath and quadrature by "
            "mc/selftest.py); continuous quantifiers represented by the finite alphabets of DESIGN.md section 4")

CHECKS = {
    "C01": dict(engine=E1, ref="5/C01",
                text="Every configuration in the stated finite product (all 36 l-pairs x type pairs x geometry "
                     "classes x contraction shape patterns, single shells, 3- and 4-shell bases for all type "
                     "patterns; nearly coincident, far-from-origin and symmetric-layout centre classes; coefficient scales "
                     "1e-6..1e5; shells on shared array objects and the same shell listed twice) is executed on the real "
                     "overlap code and compared element-wise with an "
                     "independent closed-form reference at the property's own 1e-8 absolute tolerance; bounded "
                     "exhaustive exploration is the right level because the property is a forall over input "
                     "shapes whose defects live in index bookkeeping per (l, K, M, type) class.",
                technique="exhaustive enumeration of a finite configuration product against a reference model"),
    "C02": dict(engine=E1, ref="5/C02",
                text="Same complete configuration product as C01 executed on kinetic_energy_integral (both shell "
                     "orders) and its block routine in both orientations, compared with -1/2 sum <a|d2|b> built "
                     "from closed-form 1-D tables with explicit ket differentiation, at 1e-8*sqrt(T_aa T_bb).",
                technique="exhaustive enumeration of a finite configuration product against a reference model"),
    "C07": dict(engine=E1, ref="5/C07",
                text="Complete product of l-pairs 0..4 x types x geometry x shape x origin class, each observed "
                     "with all 125 order triples in one call, all 144 ordered pairs from a generating list, "
                     "shuffled lists, the (0,0,0)==overlap identity and the binomial origin-shift law; compared "
                     "with closed-form moments at the Cauchy-Schwarz scale.",
                technique="exhaustive enumeration of a finite configuration product against a reference model"),
    "C08": dict(engine=E1, ref="5/C08",
                text="Every ordered pair of functions - upper, lower and diagonal blocks - of the momentum and "
                     "angular-momentum matrices is compared with an independent reference for all l-pairs 0..4 x "
                     "types x geometry x shapes, and for 3- and 4-shell bases in every one of the n! shell "
                     "orderings and every type pattern, with and without a transformation; Hermiticity and zero "
                     "real part are checked on every returned array.",
                technique="exhaustive enumeration of shell orderings and configurations against a reference model"),
    "C03": dict(engine=E1, ref="5/C03",
                text="All 36 l-pairs (both branches of the internal a/b swap) x types x geometry x shapes, observed "
                     "with charge sets covering 7 position classes (on a centre, mid-bond, on an axis, near, far, "
                     "1e-7 off a centre; Boys arguments 0..2e9 recorded; every charge count 1..5) and, for a sub-family, all 119 subsets of "
                     "1..5 classes; each per-charge slice compared with an independent McMurchie-Davidson "
                     "reference at 1e-8*sqrt(V_aa V_bb); the nuclear-attraction matrix compared with the sum. Long-range "
                     "tail-ladder geometries, Boys-argument ladder charges, atom-index labels and argument "
                     "representations are part of the product. One recorded finding (F1, long-range g/h diffuse-vs-"
                     "tight pairs) is printed as KNOWN-FINDING.",
                technique="exhaustive enumeration of a finite configuration product against a reference model"),
    "C04": dict(engine=E1, ref="5/C04",
                text="Every one of the 256 (l<=3) shell quartets in its own orientation x geometry classes x "
                     "exponent-placement patterns x contraction patterns, plus a fixed list of 40 ill-conditioned "
                     "core-s/diffuse-d,f quartets in five placements, is executed at block level and compared "
                     "element-wise with an independent McMurchie-Davidson reference at 1e-6 of the Schwarz scale; "
                     "all 6 orders of a 3-primitive shell in each quartet position, nearly coincident centres far from "
                     "the origin, symmetric (sum-zero) layouts, shells on shared arrays; "
                     "whole-basis calls (2-4 shells, all type patterns) in both notations, transformed (generic and "
                     "0/1-valued) and with a shell object listed twice.",
                technique="exhaustive enumeration of shell quartets and configurations against a reference model"),
    "C14": dict(engine=E1, ref="5/C14",
                text="Product of bases x type patterns x density classes x nuclei sets (both signs, 0.1..100) x "
                     "transforms (none/orthogonal/general/rectangular), each observed at EVERY threshold bracketing "
                     "each point-nucleus distance (0.99d, 1.01d; exactly d and its neighbouring floats on dyadic geometries), at 0 "
                     "and beyond the largest, for 1, 2, 3, 4, 27 and 30 points, with points on a "
                     "nucleus included; compared with nuclear-minus-electronic potential from the independent "
                     "McMurchie-Davidson reference. Enumeration of all bracketing thresholds is what decides the "
                     "'exactly when the distance is below the threshold' clause.",
                technique="exhaustive enumeration of configurations and critical thresholds against a reference model"),
    "C05": dict(engine=E1, ref="5/C05",
                text="Single shells l 0..6 x shapes x types and 2-4-shell bases x all type patterns x transforms are "
                     "evaluated at a point set covering centre / plane / axis / generic / far classes (and every point count "
                     "1..7, 50) for ALL 125 "
                     "order triples with both back-ends and an unknown back-end; compared with exact polynomial "
                     "differentiation at 1e-9 of the condition scale; 'direct' must equal 'general' for orders <= 2 "
                     "and must raise above; complete enumeration of orders x back-ends is what decides the "
                     "agree-or-reject clause.",
                technique="exhaustive enumeration of orders, back-ends and configurations against a reference model"),
    "C06": dict(engine=E1, ref="5/C06",
                text="Bases (1-4 shells, l 0..4, all type patterns) x five density-matrix classes x three "
                     "transformation classes, each observed through every density routine with both back-ends, all "
                     "derivative-order triples of the tier, five alpha values, and thresholds bracketing the most "
                     "negative value (x0.5, x0.99, x1.01, x2, exactly the value the library reports and the float below it, 0 for "
                     "exactly non-negative fields), every point count 1..6, a matrix symmetric only to 4e-7 - the "
                     "enumeration of bracketing thresholds decides "
                     "the clip-or-raise clause; oracle is a term algebra with mechanical differentiation on "
                     "independent derivative tables.",
                technique="exhaustive enumeration of configurations, orders and critical thresholds against a reference model"),
    "C15": dict(engine=E1, ref="5/C15",
                text="Bases x type patterns x density classes x transforms x all 18 (alpha, beta) combinations "
                     "including every special-cased value and values a few 1e-6 away from each; sigma compared with its documented definition, the force "
                     "with minus the divergence of that definition and the Hessian with the Jacobian of that force, "
                     "both derived by a mechanical product-rule operator on independent derivative tables - the "
                     "differential relations between the three quantities are decided, not a transcription.",
                technique="exhaustive enumeration of configurations and parameter special cases against a derived reference model"),
    "C10": dict(engine=E1, ref="5/C10",
                text="Finite space enumerated completely: every l 0..10 and m; every Cartesian permutation for l<=2 "
                     "(all 10! for l=3 in the thorough tier), every order x sign pattern of spherical labels for "
                     "l<=2, generating sets above, both sides, and a list of malformed requests that must raise; each "
                     "matrix is checked to be harmonic, orthonormal, cos/sin(m phi)-phased with positive factor and "
                     "equal to an independent generator; convention requests must be honoured bit-exactly.",
                technique="complete enumeration of a finite convention space with analytic oracles"),
    "C20": dict(engine=E1, ref="5/C20",
                text="Bases of 2-5 shells x type patterns placed so that consecutive centre distances bracket "
                     "(x0.99 / x1.01) the documented cutoff of that pair at every reference tolerance, plus 0 and 30 "
                     "bohr; on each geometry all tolerances incl. None, with and without transformation (entries up to 1, 40, "
                     "1e-3); block "
                     "kept/removed pattern, exact zeros, nesting in the tolerance and the s-type bound are checked "
                     "against a 34-digit cutoff model.",
                technique="exhaustive enumeration of configurations and critical distances against a reference model"),
    "C16": dict(engine=E1, ref="5/C16",
                text="Every 1- and 2-shell basis over l 0..4 x type x segment patterns and 3-shell ladder bases x all 8 "
                     "type patterns: the library's pointwise evaluations (values, gradients, density, positive-definite "
                     "kinetic density; the last two also for transformed orbitals with a non-diagonal density matrix) are "
                     "integrated on a 91^3 uniform grid and compared with its own analytic overlap, "
                     "moment, kinetic matrices and traces - a differential oracle between the two halves of the library "
                     "with no hand-written expected values.",
                note="trusted base: geometric convergence of the trapezoid rule for exponents 0.3..3 inside [-9,9]^3 "
                     "(one configuration is run at two spacings and the error ordering asserted); numpy",
                technique="exhaustive enumeration of small bases with a differential (integrate-the-evaluation) oracle"),
    "C17": dict(engine=E1, ref="5/C17",
                text="Invariants (S symmetric PSD and bounded by 1, T PSD, V of positive charges NSD, ERI pair matrix "
                     "PSD, (ab|ab)>=0, Schwarz inequality) are evaluated on every state of the product bases (1-5 "
                     "shells, type patterns) x centre patterns (coincident ... 6 bohr, incl. nearly linearly dependent) x "
                     "exponent patterns; reference-free, the oracle is the inequality itself.",
                note="trusted base: LAPACK eigvalsh; alphabets of DESIGN.md section 4",
                technique="exhaustive enumeration of configurations with invariants checked on every state"),
    "C09": dict(engine=E2, ref="5/C09",
                text="Part A: the four assembly base classes are driven with labelled dummy blocks (non-product "
                     "symmetric, Hermitian, asymmetric, eight-fold symmetric labels, labelled norm_cont) for every basis "
                     "shape in the bound, every type pattern and every entry point, against an explicit loop model - "
                     "any misplaced block, swapped segment/component axis or transposed copy changes some label. Part B: "
                     "breadth-first search over (type pattern lattice, attached transformation - square / wide / tall / 0-1-valued / "
                     "large entries -, component convention) "
                     "with the law X(new) = L X(old) L^T checked on every edge for every public quantity.",
                note="trusted base: reference harmonics (mc/ref/shells.py, self-tested), numpy tensordot; Part A uses the "
                     "library's own generate_transformation (checked separately by C10)",
                technique="explicit-state BFS over rewrites with commutation-law oracle + exhaustive shape enumeration on labelled blocks"),
    "C11": dict(engine=E2, ref="5/C11",
                text="Breadth-first search over all orderings of 2-5-shell bases (every transposition as a transition, "
                     "closure = n! states) with the permutation law checked on every edge for every public quantity, "
                     "plus independent evaluation of both orientations of every ladder shell pair and all eight "
                     "orientations of shell quartets including the tight/diffuse list.",
                note="differential oracle between two runs of the implementation; no reference values; numpy",
                technique="explicit-state BFS over shell orderings with permutation-law oracle"),
    "C13": dict(engine=E2, ref="5/C13",
                text="Breadth-first search from generalized shells (l 0..4, K 1..4, M 1..4) over the rewrites split-"
                     "generalized / permute-primitives (all K!) / split-primitive / scale-column (7 factors over 12 "
                     "orders of magnitude) to depth 2 (thorough: depth 3 for K*M <= 2, l <= 2), laws checked on every edge (so also from rewritten states) for "
                     "every public quantity; block-level linearity in each coefficient slot.",
                note="differential oracle between two runs of the implementation; no reference values; numpy",
                technique="explicit-state BFS over contraction rewrites with invariance-law oracle"),
    "C18": dict(engine=E1, ref="5/C18",
                text="Abstract bases (element sets x shell lists covering every letter s..k and SP x K x columns) are "
                     "written by an independent writer to NWChem and Gaussian94 text in every combination of number "
                     "style, preamble class (0, 1, 2, many lines), separator style and trailing END, parsed by the "
                     "library and compared exactly with the abstract basis; make_contractions is explored as a call "
                     "history on shared argument objects (BFS over call sequences, state = argument snapshot) with "
                     "result and argument-intactness oracles; from_pyscf on a stand-in Mole.",
                note="trusted base: the writer (mc/ref/writer.py); python float parsing; well-formedness assumptions "
                     "listed in the evidence",
                technique="exhaustive enumeration of file layouts against a writer model + explicit-state search over call histories"),
    "C12": dict(engine=E2, ref="5/C12",
                text="States are rigidly moved images of seed systems (basis, points, charges, moment origin); transitions "
                     "are all 48 signed axis permutations and three generic proper/improper rotations combined with "
                     "three translation classes, composed to depth 2; on every edge every public quantity must obey its "
                     "transformation law (representation matrices on basis indices, vector / tensor / axial-vector "
                     "rules incl. the rank-3 tensor of third derivatives through the specialised back-end, d x p shift, "
                     "invariance of scalars); translations by 1e3 and 1e4 bohr on a moderate-exponent "
                     "seed with a conditioning-limited tolerance. One recorded finding (F2, ERI with wide-range high-l "
                     "contractions) is printed as KNOWN-FINDING.",
                note="trusted base: representation matrices from independent polynomial substitution and the reference "
                     "harmonics (mc/ref/rep.py); differential oracle between two runs of the implementation",
                technique="explicit-state BFS over rigid motions (complete finite group) with covariance-law oracle"),
    "C19": dict(engine=E3, ref="5/C19",
                text="Breadth-first search over call sequences on shared objects with an alphabet of about 85 operations "
                     "(every public function with valid arguments, one or more invalid variants each, parameter updates, "
                     "rejected updates and imports, re-normalisation; constructor arguments stay in the state), run until no new state appears, so the invariants (arguments bit-identical, "
                     "numpy error state / warnings filters / module globals restored on return and raise, repeated and "
                     "path-independent results, unit normalisation after renormalisation) are established for call "
                     "sequences of every length over that alphabet, from several initial error states; every reached "
                     "state is additionally compared with a freshly started process (one fork per probe), which decides "
                     "history independence without forbidding correct caches.",
                note="trusted base: the state key (bit-exact snapshot of every shared object, global numerical state and "
                     "gbasis module globals); python deepcopy",
                technique="explicit-state search over call histories to closure with invariants on every transition"),
}

NOT_YET = {}


def main():
    props = [json.loads(l) for l in open(os.path.join(VERIF, "properties.jsonl"))]
    checks = []
    na = []
    for p in props:
        pid = p["id"]
        if pid in CHECKS:
            c = CHECKS[pid]
            checks.append({
                "property_id": pid,
                "quick_cmd": "%s mc/run.py %s --tier quick" % (PY, pid),
                "thorough_cmd": "%s mc/run.py %s --tier thorough" % (PY, pid),
                "evidence_file": "/verif/evidence/%s.json" % pid,
                "replay_cmd_template": "%s mc/run.py %s --replay {path}" % (PY, pid),
                "engine": c["engine"],
                "level_claimed": {"category": "model_checking", "text": c["text"], "design_ref": c["ref"]},
                "level_note": c.get("note", NOTE_REF),
                "technique": c["technique"],
            })
        else:
            na.append({"property_id": pid, "reason": NOT_YET.get(
                pid, "check not built yet in this session (planned in DESIGN.md section 5); not claimed until it "
                     "runs silently on the unchanged tree")})
    man = {
        "version": 1,
        "setup_cmd": "%s mc/selftest.py" % PY,
        "hooks": {
            "guard": "GBASIS_VERIF",
            "enable": "no source hooks are needed: all observations are made at the public API; checks export "
                      "GBASIS_VERIF=1 for the interface only",
            "baseline_off_cmd": "cd /repo && env -u GBASIS_VERIF /venv/bin/python -m pytest -ra -q -p no:cacheprovider "
                                "--timeout=900 --continue-on-collection-errors",
            "source_commits": [],
            "add_only": True,
        },
        "engines": [
            {"name": "E1", "path": "mc/core.py", "serves_properties": sorted(k for k, v in CHECKS.items() if v["engine"] == E1),
             "kind_free_text": "exhaustive product-space enumeration of configurations, each executed on the real "
                               "code and compared with the reference model"},
            {"name": "E2", "path": "mc/rewrite.py", "serves_properties": sorted(k for k, v in CHECKS.items() if v["engine"] == E2),
             "kind_free_text": "explicit-state BFS over semantics-preserving rewrites with commutation-law oracle"},
            {"name": "E3", "path": "mc/history.py", "serves_properties": sorted(k for k, v in CHECKS.items() if v["engine"] == E3),
             "kind_free_text": "explicit-state BFS over public-call histories with snapshot invariants"},
        ],
        "checks": checks,
        "not_applicable": na,
        "notes": "All checks: /venv/bin/python mc/run.py <ID> --tier quick|thorough; exit 0 silent, exit 1 with "
                 "VIOLATION lines, KNOWN-FINDING lines for entries of known_findings.json. Code under test is "
                 "imported from /repo's working tree on every run.",
    }
    with open(os.path.join(VERIF, "MANIFEST.json"), "w") as f:
        json.dump(man, f, indent=1)
    try:
        import jsonschema

        jsonschema.validate(man, json.load(open("/root/.vp/MANIFEST.schema.json")))
        print("MANIFEST.json valid; claimed:", [c["property_id"] for c in checks])
    except ImportError:
        print("MANIFEST.json written (jsonschema not importable here)")


if __name__ == "__main__":
    main()
