"""The shell-pair / small-basis configuration space shared by the two-index integral checks."""
import itertools

from . import alphabet as al


def shape_patterns(tier):
    """(Ka, Ma, pat_a, Kb, Mb, pat_b)"""
    if tier == "quick":
        return [(1, 1, 0, 1, 1, 2), (1, 1, 2, 1, 1, 1), (2, 2, 0, 1, 1, 1), (1, 2, 1, 2, 1, 1), (2, 1, 1, 2, 2, 0),
                (1, 1, 2, 2, 1, 0)]  # the last one: tightest primitives on BOTH shells
    out = []
    for Ka, Kb in itertools.product([1, 2, 3, 4], repeat=2):
        for pa in range(len(al.exp_patterns(0, Ka))):
            for pb in range(len(al.exp_patterns(0, Kb))):
                # M pattern cycles so that every (Ma, Mb) in 1..3 x 1..3 occurs for every (Ka, Kb) class
                out.append((Ka, 1 + (pa + Kb) % 3, pa, Kb, 1 + (pb + Ka + pa) % 3, pb))
    return out


def bounds(tier, lmax=5):
    return {"l_pairs": (lmax + 1) ** 2, "type_pairs": 4, "geometries": 8 if tier == "quick" else len(al.GEOMS), "coefficient_scale_classes": 3, "atom_index_patterns": 3,
            "shape_patterns": len(shape_patterns(tier)), "K": "1..2" if tier == "quick" else "1..4",
            "M": "1..2" if tier == "quick" else "1..3", "whole_bases": "1,3,4 shells, all type patterns"}


def configs(tier, lmax=5, singles=True, bases=True, shapes=None, geoms=None):
    geoms = geoms or (al.GEOMS[:5] + ["closeT", "nearfar", "sumzero"] if tier == "quick" else al.GEOMS)
    shapes = shapes or shape_patterns(tier)
    out = []
    for la in range(lmax + 1):
        for lb in range(lmax + 1):
            for ta, tb in al.type_patterns(2):
                for g in geoms:
                    for sp in shapes:
                        # atom indices as make_contractions assigns them: none / same index on different centres (two
                        # separately built basis sets) / different indices - the index must never matter
                        ic = [None, [0, 0], [1, 0]][(la + lb + len(out)) % 3]
                        out.append({"kind": "pair", "la": la, "lb": lb, "ta": ta, "tb": tb, "geom": g,
                                    "shape": list(sp), "ic": ic})
    # coefficient scale classes ("any non-zero coefficients"): a whole shell / one segmented column scaled by
    # 1e-5 ... 1e5 - the normalised functions, hence every integral, are unchanged
    for la in range(lmax + 1):
        for lb in range(lmax + 1):
            for cs in (1, 2, 3):
                ta, tb = al.type_patterns(2)[(la + 2 * lb + cs) % 4]
                out.append({"kind": "pair", "la": la, "lb": lb, "ta": ta, "tb": tb, "geom": "generic",
                            "shape": list(shapes[(la + lb + cs) % len(shapes)]), "ic": None, "cs": cs})
    # size ladder: the largest shell pairs of the quantifier (4 primitives, 3 segmented contractions on both shells
    # of the highest angular momenta) - the blocks and temporaries where an alternative code path for "large" pairs
    # would be taken
    for la in range(max(0, lmax - 1), lmax + 1):
        for lb in range(max(0, lmax - 1), lmax + 1):
            ta, tb = al.type_patterns(2)[(la + 2 * lb) % 4]
            out.append({"kind": "pair", "la": la, "lb": lb, "ta": ta, "tb": tb, "geom": "generic",
                        "shape": [4, 3, 0, 4, 3, 1], "ic": None})
    # aliasing class: two shells of (in general) different angular momentum built on the SAME exponent and
    # coefficient array objects
    for la in range(lmax + 1):
        for lb in range(lmax + 1):
            ta, tb = al.type_patterns(2)[(2 * la + lb) % 4]
            out.append({"kind": "pair", "la": la, "lb": lb, "ta": ta, "tb": tb, "geom": "generic" if (la + lb) % 3 else "coincident",
                        "shape": [2, 2, 1, 2, 2, 1], "ic": None, "alias": 1})
    if singles:
        for l in range(lmax + 1):
            for K in ([1, 2] if tier == "quick" else [1, 2, 3, 4]):
                for M in ([1, 2] if tier == "quick" else [1, 2, 3]):
                    for t in ("cartesian", "spherical"):
                        for pat in range(len(al.exp_patterns(l, K, tier))):
                            out.append({"kind": "single", "l": l, "K": K, "M": M, "t": t, "pat": pat})
    if bases:
        for n in (3, 4):
            starts = [0, 2] if tier == "quick" else list(range(0, 5))
            for st in starts:
                for tp in al.type_patterns(n):
                    out.append({"kind": "basis", "n": n, "start": st, "types": list(tp), "lmax": lmax})
    return out


def close_configs(lmax):
    """nearly coincident centres with the tightest primitives on both shells, and the 3e-4 bohr pair far from the
    origin - one configuration per (l_a, l_b, class), coordinate types cycling"""
    out = []
    for la in range(lmax + 1):
        for lb in range(lmax + 1):
            for gi, g in enumerate(("closeT", "nearfar", "sumzero")):
                ta, tb = al.type_patterns(2)[(la + 3 * lb + gi) % 4]
                out.append({"kind": "pair", "la": la, "lb": lb, "ta": ta, "tb": tb, "geom": g,
                            "shape": [1, 1, 2, 2, 1, 0] if g != "sumzero" else [2, 1, 1, 1, 2, 1], "ic": None})
    return out


def build(cfg, originA=False):
    from . import core

    core.ALIAS_POOL = {} if cfg.get("alias") else None
    tier = "thorough"
    if cfg["kind"] == "pair":
        Ka, Ma, pa, Kb, Mb, pb = cfg["shape"]
        A = (0.0, 0.0, 0.0) if (originA or cfg.get("originA")) else al.generic_center("A")
        if cfg["geom"] == "sumzero":
            A = al.SUMZERO_A
        # every third configuration uses table-style (normalised, rounded) coefficients for shell a, every fourth for b
        ta_ = (cfg["la"] + 2 * cfg["lb"] + Ka + pb) % 3 == 0
        tb_ = (cfg["la"] + cfg["lb"] + Kb + pa) % 4 == 0
        a = al.shell(cfg["la"], A, Ka, Ma, cfg["ta"], pat=pa, rot=0, tier=tier, tabulated=ta_)
        b = al.shell(cfg["lb"], A, Kb, Mb, cfg["tb"], pat=pb, rot=1, tier=tier, tabulated=tb_)
        if cfg.get("alias"):  # identical parameter values, so that the pool hands both shells the same objects
            a = al.shell(cfg["la"], A, Ka, Ma, cfg["ta"], pat=1, rot=0, tier=tier)
            b = al.shell(cfg["lb"], A, Ka, Ma, cfg["tb"], pat=1, rot=0, tier=tier).with_(exps=a.exps, coeffs=a.coeffs)
            # exponents valid for both angular momenta: the (0.35, 2.9) pattern
        ea, eb = min(a.exps), min(b.exps)
        xa, xb = max(a.exps), max(b.exps)
        B = al.add(A, al.displacement(cfg["geom"], mu=ea * eb / (ea + eb), mu_max=xa * xb / (xa + xb)))
        b = b.with_(center=B)
        if cfg["geom"] == "nearfar":
            a, b = a.with_(center=al.add(A, al.FAR_OFFSET)), b.with_(center=al.add(B, al.FAR_OFFSET))
        cs = cfg.get("cs")
        if cs:
            import numpy as np

            ca, cb = np.array(a.coeffs, dtype=float), np.array(b.coeffs, dtype=float)
            if cs == 1:
                cb[:, 0] *= 1e-5
            elif cs == 2:
                ca *= 1e5
                cb[:, -1] *= 3e-4
            else:
                ca *= 1e-6
            a, b = a.with_(coeffs=ca), b.with_(coeffs=cb)
        if cfg.get("ic"):
            a, b = a.with_(icenter=cfg["ic"][0]), b.with_(icenter=cfg["ic"][1])
        return [a, b]
    if cfg["kind"] == "single":
        return [al.shell(cfg["l"], al.generic_center("A"), cfg["K"], cfg["M"], cfg["t"], pat=cfg["pat"], tier=tier,
                         tabulated=(cfg["l"] + cfg["K"] + cfg["pat"]) % 2 == 0)]
    cs = al.molecule_centers(cfg["n"])
    return [al.ladder_shell(cfg["start"] + i, cs[i], cfg["types"][i], lmax=cfg.get("lmax", 5)).with_(
        icenter=[None, i // 2, 0][cfg["start"] % 3]) for i in range(cfg["n"])]
