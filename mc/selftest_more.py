"""Self-tests of the Coulomb (McMurchie-Davidson) part of the reference model."""
import math

import mpmath
import numpy as np

from mc.ref import coulomb, md, oneel
from mc.ref.shells import RefShell
from mc import _st
from mc.ref import gauss1d
from mc.ref.num import MP

ok = _st.ok


def _quad_coulomb(sa, ca, ka, sb, cb, kb, C, umax=None):
    """(2/sqrt(pi)) int_0^umax du  prod_axis int dx (x-A)^i (x-B)^j exp(-a(x-A)^2 - b(x-B)^2 - u^2 (x-C)^2)
    = <prim a| 1/|r-C| |prim b> (umax = inf)  or  <a| erf(umax r_C)/r_C |b>.
    The inner three-centre 1-D integrals use the closed-form table (Gaussians b@B and u^2@C merged),
    the outer integral is mpmath quadrature after u = t/sqrt(1-t^2)."""
    a, b = sa.exps[ka], sb.exps[kb]
    with mpmath.workdps(25):
        def inner(u):
            v = mpmath.mpf(1)
            u2 = u * u
            for ax in range(3):
                A, B, Cx = mpmath.mpf(sa.center[ax]), mpmath.mpf(sb.center[ax]), mpmath.mpf(C[ax])
                i, j = ca[ax], cb[ax]
                b2 = b + u2
                B2 = (b * B + u2 * Cx) / b2
                pref = mpmath.exp(-b * u2 / b2 * (B - Cx) ** 2)
                T = gauss1d.table(np.array([[mpmath.mpf(a)]], dtype=object), np.array([[b2]], dtype=object),
                                  A, B2, B, i, 0, j, MP)
                v *= pref * T[i][0][j][0, 0]
            return v

        tmax = 1 if umax is None else umax / mpmath.sqrt(1 + umax * umax)

        def f(t):
            if t >= 1:
                return mpmath.mpf(0)
            w = 1 - t * t
            return inner(t / mpmath.sqrt(w)) / (w * mpmath.sqrt(w))

        val = mpmath.quad(f, mpmath.linspace(0, tmax, 5))
        return float(2 / mpmath.sqrt(mpmath.pi) * val)


def t_boys():
    worst = 0
    worst2 = 0
    for T in (0.0, 1e-9, 3e-4, 0.02, 0.9, 7.5, 33.0, 180.0, 2.5e4, 3e7):
        F = md.boys(12, np.array([T]))[:, 0]
        for n in (0, 1, 5, 12):
            with mpmath.workdps(30):
                h = mpmath.hyp1f1(n + 0.5, n + 1.5, -T) / (2 * n + 1)
                worst2 = max(worst2, abs(float(F[n]) - float(h)) / float(h))
                if T <= 180:
                    br = sorted({0.0, 1.0} | {min(1.0, k / math.sqrt(T)) for k in (1, 3, 6, 12) if T > 0})
                    q = mpmath.quad(lambda t: t ** (2 * n) * mpmath.exp(-T * t * t), br)
                    worst = max(worst, abs(float(F[n]) - float(q)) / float(q))
    ok("Boys function (incomplete gamma + downward recursion) == quadrature (T<=180)", worst < 1e-14,
       "worst rel %.1e" % worst)
    ok("Boys function == 30-digit mpmath 1F1 (T up to 3e7)", worst2 < 1e-15, "worst rel %.1e" % worst2)


def t_md_overlap():
    """E^{ij}_0 sqrt(pi/p) == closed-form overlap."""
    sa = RefShell(4, (0.1, -0.3, 0.2), (0.8, 3.0), [[1.0], [1.0]], "cartesian")
    sb = RefShell(3, (-0.6, 0.4, 0.9), (1.7,), [[1.0]], "cartesian")
    E, p, P, H = md.pair_E(sa, sb)
    h0 = [n for n, h in enumerate(H) if tuple(h) == (0, 0, 0)][0]
    S = E[:, :, h0] * (np.pi / p) ** 1.5
    ref = oneel.raw_block(sa, sb, oneel.OVERLAP)
    err = np.max(np.abs(np.asarray(S - ref, dtype=float))) / np.max(np.abs(np.asarray(ref, dtype=float)))
    ok("Hermite E_0 * (pi/p)^(3/2) == closed-form overlap", err < 1e-15, "rel %.1e" % err)


def t_nuclear_quad():
    sa = RefShell(2, (0.2, -0.1, 0.3), (0.9,), [[1.0]], "cartesian")
    sb = RefShell(1, (-0.4, 0.5, 0.1), (1.4,), [[1.0]], "cartesian")
    C = (0.3, 0.2, -0.6)
    raw = np.asarray(md.nuclear_raw(sa, sb, [C]), dtype=float)
    worst = 0
    for ia, ib in ((0, 0), (1, 2), (4, 1), (5, 0)):
        q = _quad_coulomb(sa, sa.comps[ia], 0, sb, sb.comps[ib], 0, C)
        worst = max(worst, abs(raw[ia, ib, 0, 0, 0] - q) / np.max(np.abs(raw)))
    ok("MD nuclear attraction (d|p) == 1/r Gaussian-transform quadrature", worst < 1e-11, "rel %.1e" % worst)


def t_eri_erf():
    """(ab|ss) with both s primitives of exponent g/2 on C equals <a| erf(sqrt(g) r_C)/r_C |b> (pi/g)^(3/2)."""
    sa = RefShell(2, (0.2, -0.1, 0.3), (0.9,), [[1.0]], "cartesian")
    sb = RefShell(1, (-0.4, 0.5, 0.1), (1.4,), [[1.0]], "cartesian")
    C = (0.3, 0.2, -0.6)
    g = 2.6
    sc = RefShell(0, C, (g / 2,), [[1.0]], "cartesian")
    raw = np.asarray(md.eri_raw(sa, sb, sc, sc), dtype=float)[:, :, 0, 0, 0, 0, 0, 0]
    worst = 0
    for ia, ib in ((0, 0), (1, 2), (4, 1), (5, 0)):
        q = _quad_coulomb(sa, sa.comps[ia], 0, sb, sb.comps[ib], 0, C, umax=math.sqrt(g)) * (math.pi / g) ** 1.5
        worst = max(worst, abs(raw[ia, ib] - q) / np.max(np.abs(raw)))
    ok("MD ERI (dp|ss) == erf-attenuated potential quadrature", worst < 1e-11, "rel %.1e" % worst)


def t_eri_symmetry():
    s = [RefShell(1, (0.0, 0.1, -0.2), (0.7, 2.0), [[0.4, 0.1], [0.6, -0.8]], "cartesian"),
         RefShell(2, (0.5, -0.3, 0.4), (1.1,), [[1.0]], "spherical"),
         RefShell(3, (-0.3, 0.6, 0.2), (0.5,), [[1.0]], "cartesian"),
         RefShell(0, (0.1, 0.2, 0.9), (3.0, 0.3), [[0.3], [0.7]], "cartesian")]
    x = coulomb.eri_block(s[0], s[1], s[2], s[3])
    sc = np.max(np.abs(x))
    e1 = np.max(np.abs(x - coulomb.eri_block(s[2], s[3], s[0], s[1]).transpose(2, 3, 0, 1))) / sc
    e2 = np.max(np.abs(x - coulomb.eri_block(s[1], s[0], s[2], s[3]).transpose(1, 0, 2, 3))) / sc
    e3 = np.max(np.abs(x - coulomb.eri_block(s[3], s[2], s[1], s[0]).transpose(3, 2, 1, 0))) / sc
    ok("MD ERI (pd|fs): bra<->ket, a<->b and full reversal symmetry", max(e1, e2, e3) < 1e-14,
       "rel %.1e %.1e %.1e" % (e1, e2, e3))


def t_eri_ssss_closed():
    """contracted (ss|ss) vs the textbook closed form evaluated in mpmath."""
    cs = [(0.0, 0.0, 0.0), (0.7, -0.2, 0.3), (-0.4, 0.9, 0.1), (0.2, 0.3, -0.8)]
    es = [1.3, 0.4, 2.2, 0.9]
    sh = [RefShell(0, c, (e,), [[1.0]], "cartesian") for c, e in zip(cs, es)]
    x = coulomb.eri_block(*sh)[0, 0, 0, 0]
    with mpmath.workdps(30):
        a, b, c, d = [mpmath.mpf(e) for e in es]
        A, B, C, D = [mpmath.matrix(v) for v in cs]
        p, q = a + b, c + d
        P = (a * A + b * B) / p
        Q = (c * C + d * D) / q
        rab = sum((A - B)[i] ** 2 for i in range(3))
        rcd = sum((C - D)[i] ** 2 for i in range(3))
        rpq = sum((P - Q)[i] ** 2 for i in range(3))
        T = p * q / (p + q) * rpq
        F0 = mpmath.sqrt(mpmath.pi / T) * mpmath.erf(mpmath.sqrt(T)) / 2
        val = 2 * mpmath.pi ** 2.5 / (p * q * mpmath.sqrt(p + q)) * mpmath.exp(-a * b / p * rab - c * d / q * rcd) * F0
        for e in es:
            val *= (2 * mpmath.mpf(e) / mpmath.pi) ** 0.75
    ok("MD ERI (ss|ss) == closed form", abs(x - float(val)) / float(val) < 1e-14, "rel %.1e" % (abs(x - float(val)) / float(val)))


TESTS = [t_boys, t_md_overlap, t_nuclear_quad, t_eri_erf, t_eri_symmetry, t_eri_ssss_closed]


def t_evalref_mpdiff():
    """polynomial-differentiation reference vs mpmath numerical differentiation of the defining expression."""
    from mc.ref.evalref import BasisEvaluator
    from mc.ref.shells import contraction_norms, prim_norm, solid_harmonic_poly, sph_labels, parse_label, sph_transform, cart_comps

    sh = RefShell(2, (0.2, -0.3, 0.1), (0.7, 2.1), [[0.6, -0.2], [0.5, 0.9]], "spherical")
    pt = np.array([[0.9, 0.4, -0.6]])
    ev = BasisEvaluator([sh], pt, 4)
    N = contraction_norms(sh)
    U = sph_transform(2)
    comps = cart_comps(2)
    worst = 0
    for order in ((0, 0, 0), (1, 0, 2), (2, 2, 0), (0, 4, 1), (3, 1, 1)):
        v, m = ev.deriv(order)
        for seg in (0, 1):
            for f in (0, 3):
                def phi(x, y, z, seg=seg, f=f):
                    X, Y, Z = x - sh.center[0], y - sh.center[1], z - sh.center[2]
                    tot = mpmath.mpf(0)
                    for k, a in enumerate(sh.exps):
                        g = mpmath.exp(-a * (X * X + Y * Y + Z * Z))
                        for c, (i, j, l) in enumerate(comps):
                            n = float(prim_norm(np.array([a]), (i, j, l))[0])
                            tot += U[f, c] * float(N[seg]) * sh.coeffs[k][seg] * n * X ** i * Y ** j * Z ** l * g
                    return tot
                with mpmath.workdps(40):
                    d = mpmath.diff(phi, (pt[0, 0], pt[0, 1], pt[0, 2]), order)
                worst = max(worst, abs(float(d) - v[seg * 5 + f, 0]) / (m[seg * 5 + f, 0] + 1e-300))
    ok("basis-derivative reference == mpmath numerical differentiation (d shell, spherical, orders <= 4)", worst < 1e-10,
       "worst rel %.1e" % worst)


def t_rep():
    """representation matrices: orthogonal on spherical shells, metric-preserving on Cartesian shells,
    multiplicative, and consistent with direct evaluation of rotated functions."""
    from mc.ref import rep
    from mc.ref.evalref import BasisEvaluator
    from mc.ref.shells import cart_metric
    from mc.core import hvec

    R1 = rep.rotation_from_seed("st-r1", hvec)
    R2 = rep.rotation_from_seed("st-r2", hvec, improper=True)
    bad = 0
    for l in range(5):
        for t in ("cartesian", "spherical"):
            sh = RefShell(l, (0.0, 0.0, 0.0), (0.9,), [[1.0]], t)
            D1, D2, D12 = rep.shell_rep(sh, R1), rep.shell_rep(sh, R2), rep.shell_rep(sh, R1 @ R2)
            if not np.allclose(D1 @ D2, D12, atol=1e-12):
                bad += 1
            if t == "spherical" and not np.allclose(D1 @ D1.T, np.eye(2 * l + 1), atol=1e-12):
                bad += 1
            if t == "cartesian":
                G = cart_metric(sh.comps)
                if not np.allclose(D1 @ G @ D1.T, G, atol=1e-12):
                    bad += 1
            # phi'(R u) = D phi(u) with the same shell (centre at origin is a fixed point)
            u = np.array([[0.3, -0.7, 0.5], [1.1, 0.2, -0.4]])
            a = BasisEvaluator([sh], u @ R1.T, 0).deriv((0, 0, 0))[0]
            b = D1 @ BasisEvaluator([sh], u, 0).deriv((0, 0, 0))[0]
            if not np.allclose(a, b, atol=1e-12):
                bad += 1
    ok("shell representation matrices: multiplicative, orthogonal / metric preserving, reproduce rotated values", bad == 0)


def t_writer():
    """writer -> independent tokenizer round trip"""
    from mc.ref import writer as W
    from mc.props import C18

    bad = 0
    for es, cs in C18.STYLES:
        basis = C18.abstract_basis({"elems": 3, "shells": 5, "K": 10, "ncol": 6}, es, cs)
        model = W.model_columns(basis)
        nums_model = []
        for elem, shells in basis:
            for letters, exps, rows in shells:
                pass
        for text in (W.write_nwchem(basis, "many", "comment", True), W.write_gbs(basis, "none", "blank", False)):
            toks = W.tokenize_numbers(text)
            want = sum(len(ex) * (1 + len(rows[0])) for _, shells in basis for _, ex, rows in shells)
            if text.startswith("****") or "     0\n" in text:
                # gaussian94 repeats the exponents once per generalized column
                want = sum(len(ex) * (2 * len(rows[0]) if len(letters) == 1 else 1 + len(rows[0]))
                           for _, shells in basis for letters, ex, rows in shells)
            if len(toks) != want:
                bad += 1
        for v in ("0.1234500000E+02", "-0.5000000000D-03", "12.3450000"):
            if abs(W.value(W.fmt_number(W.value(v), "E")) - W.value(v)) > 1e-9 * abs(W.value(v)):
                bad += 1
    ok("basis-file writer: number formats and token counts consistent with the abstract basis", bad == 0)


TESTS += [t_evalref_mpdiff, t_rep, t_writer]
