"""Engine E3: explicit-state breadth-first search over call histories on shared objects.

state      = canonical snapshot of every shared object (array bytes/dtype/shape/flags, container
             contents, every attribute of every shell), numpy error state, warnings filters and
             every non-callable global of every loaded gbasis module;
transition = one public call (valid or deliberately invalid), a parameter update, or a
             re-normalisation, executed on a deep copy of the stored world of the source state;
invariants = checked on every transition (see check_transition);
search     = BFS until no new state appears (closure) or the depth bound is hit.
"""
import collections
import copy
import hashlib
import sys
import types
import warnings

import numpy as np


SHELL_ATTRS = ("angmom", "coord", "exps", "coeffs", "norm_cont", "coord_type", "icenter")


def snap(x, depth=0):
    """Canonical, bit-exact, hashable description of an object graph."""
    if isinstance(x, np.ndarray):
        return ("nd", x.dtype.str, x.shape, bool(x.flags.writeable), x.tobytes())
    if isinstance(x, (str, bytes, int, float, complex, bool, type(None))):
        return ("v", type(x).__name__, repr(x))
    if isinstance(x, np.generic):
        return ("g", x.dtype.str, x.tobytes())
    if isinstance(x, dict):
        return ("dict", tuple((repr(k), snap(v, depth + 1)) for k, v in x.items()))
    if isinstance(x, (list, tuple)):
        return (type(x).__name__, tuple(snap(v, depth + 1) for v in x))
    if all(hasattr(x, a) for a in SHELL_ATTRS):
        # a shell is described by its documented attributes (a correct private cache is not a modification;
        # a stale one is caught by the history-independence probes and the renormalisation invariant)
        return ("shell", type(x).__name__, tuple((a, snap(getattr(x, a), depth + 1)) for a in SHELL_ATTRS))
    if hasattr(x, "__dict__") and depth < 6:
        return ("obj", type(x).__name__, tuple((k, snap(v, depth + 1)) for k, v in sorted(vars(x).items())))
    return ("r", repr(x))


def digest(x):
    return hashlib.sha256(repr(snap(x)).encode()).hexdigest()


def module_state():
    out = []
    for name in sorted(sys.modules):
        if name == "gbasis" or name.startswith("gbasis."):
            mod = sys.modules[name]
            if mod is None:
                continue
            for k, v in sorted(vars(mod).items()):
                if k.startswith("__") or isinstance(v, (types.ModuleType, types.FunctionType, type, types.BuiltinFunctionType)):
                    continue
                if callable(v):
                    continue
                out.append((name, k, snap(v)))
    return tuple(out)


def global_state():
    return (tuple(sorted(np.geterr().items())), repr(np.geterrcall()), len(warnings.filters), np.get_printoptions()["precision"])


def result_digest(r):
    if isinstance(r, np.ndarray):
        return hashlib.sha256(r.dtype.str.encode() + str(r.shape).encode() + np.ascontiguousarray(r).tobytes()).hexdigest()
    return digest(r)


class Op:
    def __init__(self, name, fn, kind="call", targets=()):
        """kind: 'call' (must return), 'invalid' (must raise), 'update' (changes `targets`), 'renorm'."""
        self.name = name
        self.fn = fn
        self.kind = kind
        self.targets = tuple(targets)


class HistoryExplorer:
    def __init__(self, o, make_world, ops, probes, world_key_parts, max_depth=30, max_states=400, on_renorm=None,
                 rebuild=None, shard=(0, 1)):
        self.o = o
        self.make_world = make_world
        self.ops = ops
        self.probes = probes
        self.parts = world_key_parts  # names of world entries that make up the state
        self.max_depth = max_depth
        self.max_states = max_states
        self.on_renorm = on_renorm
        self.rebuild = rebuild
        # (k, n): the same search run in n processes.  Every process executes all state-changing operations
        # (updates, renormalisations: they discover the states), and the k-th n-th of the other operations on
        # every state; together the n processes cover every (state, operation) transition.
        self.shard = shard
        self.fresh = None  # callable(world) -> probe digests computed in a process without any call history
        self.states = {}
        self.probe_digests = {}
        self.edges = 0
        self.closure = False
        self.maxdepth_seen = 0

    def key(self, w):
        return hashlib.sha256(repr(tuple((p, snap(w[p])) for p in self.parts)).encode()).hexdigest()

    def run_probes(self, w):
        out = {}
        for name, fn in self.probes:
            try:
                out[name] = ("ok", result_digest(fn(w)))
            except Exception as e:  # noqa
                out[name] = ("raise", type(e).__name__)
            self.o.call()
        return out

    def check_fresh(self, w, live, label):
        """I3b: what this process (with its call history) returns for the probes must equal what a process with no
        history returns for the same arguments."""
        if self.fresh is None:
            return
        fr = self.fresh(w)
        self.o.check("I3 results equal those of a fresh process: " + label, fr == live,
                     detail={k_: (live.get(k_), fr.get(k_)) for k_ in live if live.get(k_) != fr.get(k_)},
                     key="I3-fresh-process", token=("I3b", len(self.states)))

    def explore(self):
        o = self.o
        w0 = self.make_world()
        mod0 = module_state()
        k0 = self.key(w0)
        self.states[k0] = (copy.deepcopy(w0), 0, [])
        self.probe_digests[k0] = self.run_probes(w0)
        self.check_fresh(w0, self.probe_digests[k0], "initial state")
        frontier = collections.deque([k0])
        while frontier:
            k = frontier.popleft()
            world, depth, hist = self.states[k]
            self.maxdepth_seen = max(self.maxdepth_seen, depth)
            if depth >= self.max_depth:
                continue
            for op_i, op in enumerate(self.ops):
                if op.kind in ("call", "invalid") and op_i % self.shard[1] != self.shard[0]:
                    continue
                w = copy.deepcopy(world)
                before = {p: snap(w[p]) for p in self.parts}
                g_before = global_state()
                self.edges += 1
                label = "%s after %d-step history" % (op.name, depth)
                if op.kind in ("update", "renorm") and self.rebuild is not None:
                    self.run_probes(w)  # use the live objects before they are changed (fills any hidden cache)
                try:
                    res = op.fn(w)
                    raised = None
                except Exception as e:  # noqa
                    res = None
                    raised = e
                o.call()
                g_after = global_state()
                after = {p: snap(w[p]) for p in self.parts}
                # I2: process-wide numerical state and module globals
                o.check("I2 global numerical state restored: " + label, g_after == g_before,
                        detail={"before": repr(g_before), "after": repr(g_after)}, key="I2-global-state:" + op.name,
                        token=("I2", op.name, op.kind))
                if g_after != g_before:
                    np.seterr(**dict(g_before[0]))
                m = module_state()
                if m != mod0:
                    # not a violation by itself (a correct cache is allowed); it is counted, and every state is
                    # compared with a fresh process below, which is what decides history independence
                    o.notes["module_state_changes"] = o.notes.get("module_state_changes", 0) + 1
                    mod0 = m
                # I1: arguments intact (only the declared targets of an update may change)
                changed = [p for p in self.parts if after[p] != before[p]]
                allowed = set(op.targets) if op.kind in ("update", "renorm") else set()
                o.check("I1 arguments intact: " + label, set(changed) <= allowed,
                        detail={"changed": changed, "history": hist[-5:]}, key="I1-argument-changed:" + op.name,
                        token=("I1", op.name))
                if op.kind == "call":
                    o.check("valid call returns: " + label, raised is None,
                            detail=None if raised is None else "%s: %s" % (type(raised).__name__, str(raised)[:150]),
                            key="valid-call-raised:" + op.name)
                    if raised is None and isinstance(res, tuple) and len(res) == 3 and isinstance(res[2], bool):
                        o.check("result handed to the caller is not shared with later calls: " + label, res[2],
                                key="result-aliased:" + op.name, token=("alias", op.name))
                    if raised is None:
                        # same call twice in a row -> bit-identical
                        try:
                            same = result_digest(res) == result_digest(op.fn(w))
                            det = None
                        except Exception as e:  # noqa
                            same = False
                            det = "second call raised %s: %s" % (type(e).__name__, str(e)[:120])
                        o.call()
                        o.check("I3 repeated call identical: " + label, same, detail=det,
                                key="I3-repeat:" + op.name, token=("rep", op.name, result_digest(res)[:12]))
                elif op.kind == "invalid":
                    o.check("invalid call is rejected: " + label, raised is not None, key="invalid-call-accepted:" + op.name,
                            token=("inv", op.name, type(raised).__name__ if raised is not None else None))
                elif op.kind == "renorm" and self.on_renorm is not None and raised is None:
                    self.on_renorm(o, w, label)
                if op.kind in ("update", "renorm") and self.rebuild is not None and raised is None:
                    # I5: results depend on the arguments only - the live, updated objects must give what freshly
                    # constructed objects with the same parameters give
                    live = self.run_probes(w)
                    try:
                        fresh = self.run_probes(self.rebuild(w))
                    except Exception as e:  # noqa  (a shell left inconsistent by an earlier, reported, transition)
                        fresh = None
                        o.check("I5 the updated shells can be rebuilt from their own attributes: " + label, False,
                                detail="%s: %s" % (type(e).__name__, str(e)[:150]), key="I5-rebuild-failed:" + op.name)
                    if fresh is not None:
                        o.check("I5 updated objects behave like freshly built ones: " + label, live == fresh,
                                detail={k_: (live[k_], fresh[k_]) for k_ in live if live[k_] != fresh[k_]},
                                key="I5-stale-after-update:" + op.name, token=("I5", op.name))
                nk = self.key(w)
                if nk in self.states:
                    smp = o.notes.setdefault("_samples", [])
                    if len(smp) < 6 and depth >= 1 and op.kind == "call":
                        smp.append({"history": hist + [op.name], "returns_to_state": nk[:12],
                                    "invariants_checked": ["I1 arguments bit-identical", "I2 global numerical state", "I3 repeat + probes"]})
                    # I3: history independence - the live world arrived along a new path; probes must agree
                    pr = self.run_probes(w)
                    o.check("I3 results independent of history: " + label, pr == self.probe_digests[nk],
                            detail={k_: (pr[k_], self.probe_digests[nk][k_]) for k_ in pr if pr[k_] != self.probe_digests[nk][k_]},
                            key="I3-history:" + op.name, token=("I3", op.name))
                else:
                    if len(self.states) >= self.max_states:
                        o.notes["cap_states_hit"] = 1
                        continue
                    self.states[nk] = (copy.deepcopy(w), depth + 1, hist + [op.name])
                    smp = o.notes.setdefault("_samples", [])
                    if len(smp) < 4:
                        smp.append({"history_reaching_new_state": hist + [op.name], "state": nk[:12], "depth": depth + 1})
                    self.probe_digests[nk] = self.run_probes(w)
                    self.check_fresh(w, self.probe_digests[nk], label)
                    frontier.append(nk)
        self.closure = "cap_states_hit" not in o.notes and self.maxdepth_seen < self.max_depth
        o.notes["bfs_states"] = len(self.states)
        o.notes["bfs_edges"] = self.edges
        o.notes["closure_reached"] = int(self.closure)
        o.notes["max_depth"] = self.maxdepth_seen
        return self
