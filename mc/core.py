"""Common plumbing: import of the code under test, observation collector, sharded exhaustive
runner, evidence / replay / known-findings handling."""
import hashlib
import json
import os
import sys
import time
import traceback

sys.dont_write_bytecode = True
for _v in ("OMP_NUM_THREADS", "OPENBLAS_NUM_THREADS", "MKL_NUM_THREADS"):
    os.environ[_v] = "1"
os.environ.setdefault("PYTHONHASHSEED", "0")

import numpy as np  # noqa: E402

VERIF = os.path.dirname(os.path.dirname(os.path.abspath(__file__)))
REPO = os.path.realpath(os.environ.get("GBASIS_VERIF_REPO", "/repo"))
GUARD = "GBASIS_VERIF"
os.environ[GUARD] = "1"

_gb = None


def gb():
    """Import gbasis from REPO's working tree (never from anywhere else)."""
    global _gb
    if _gb is None:
        if REPO not in sys.path[:1]:
            sys.path.insert(0, REPO)
        for k in [k for k in sys.modules if k == "gbasis" or k.startswith("gbasis.")]:
            del sys.modules[k]
        import warnings

        warnings.filterwarnings("ignore", category=SyntaxWarning)
        import gbasis

        here = os.path.realpath(os.path.dirname(gbasis.__file__))
        assert here == os.path.join(REPO, "gbasis"), (here, REPO)
        _gb = gbasis
    return _gb


def seed():
    try:
        return int(os.environ.get("VERIF_SEED", "0"))
    except ValueError:
        return 0


def hfloat(tag, lo=0.0, hi=1.0, sd=None):
    """Deterministic 'generic position' representative in [lo, hi): an integer hash of (seed, tag),
    no RNG state anywhere."""
    sd = seed() if sd is None else sd
    h = hashlib.sha256(("%d|%s" % (sd, tag)).encode()).digest()
    u = int.from_bytes(h[:7], "big") / float(1 << 56)
    return lo + (hi - lo) * u


def hvec(tag, n, lo=-1.0, hi=1.0, sd=None):
    return [hfloat("%s#%d" % (tag, i), lo, hi, sd) for i in range(n)]


# When a dict, shells built by gshell share ONE array object per distinct exponent vector / coefficient matrix (as
# hand-written input and make_contractions produce: several shells built on the same arrays).  Set by pairspace.build
# for configurations of the "alias" class, None otherwise.
ALIAS_POOL = None


def _pooled(a):
    if ALIAS_POOL is None:
        return a
    return ALIAS_POOL.setdefault((a.shape, a.tobytes()), a)


def gshell(sh, cls=None):
    """RefShell -> gbasis shell object (fresh arrays, unless the alias pool is active)."""
    gb()
    from gbasis.contractions import GeneralizedContractionShell

    base = cls or GeneralizedContractionShell
    if sh.cart_order is not None or sh.sph_order is not None:
        cart = np.array(sh.comps)
        sph = tuple(sh.labels)

        class Conv(base):
            @property
            def angmom_components_cart(self):
                return cart.copy()

            @property
            def angmom_components_sph(self):
                return sph

        base = Conv
    # both documented spellings of the coordinate type are used (chosen by a fixed rule on the shell shape)
    ctype = sh.ctype if (sh.l + sh.K) % 2 else {"cartesian": "c", "spherical": "p"}[sh.ctype]
    return base(sh.l, np.array(sh.center, dtype=float), _pooled(np.array(sh.coeffs, dtype=float)),
                _pooled(np.array(sh.exps, dtype=float)), ctype, icenter=sh.icenter)


def gbasis_of(shells):
    return [gshell(s) for s in shells]


def _digest(a):
    a = np.asarray(a)
    if a.dtype == object:
        return hashlib.sha1(repr(a.tolist()).encode()).hexdigest()[:16]
    if np.iscomplexobj(a):
        a = np.stack([a.real, a.imag])
    a = np.asarray(a, dtype=float)
    m = float(np.max(np.abs(a))) if a.size else 0.0
    if m == 0 or not np.isfinite(m):
        return None
    q = np.round(a / m, 6) + 0.0
    return hashlib.sha1(q.tobytes() + str(a.shape).encode() + ("%.6e" % m).encode()).hexdigest()[:16]


class Obs:
    """Collector for the observations made on one configuration."""

    def __init__(self, cfg):
        self.cfg = cfg
        self.calls = 0  # API calls executed on the implementation (transitions)
        self.validated = 0  # observations compared with a reference prediction / law
        self.digests = set()
        self.worst = 0.0
        self.worst_name = None
        self.violations = []
        self.notes = {}

    def call(self, n=1):
        self.calls += n

    def cmp(self, name, got, ref, tol, scale=1.0, key=None, floor=1e-290):
        """|got - ref| <= tol*scale + 1e-13*scale + floor, element-wise (scale may be an array).
        The default floor (1e-290) only exempts the denormal / underflow range of IEEE doubles."""
        self.validated += 1
        got = np.asarray(got)
        ref = np.asarray(ref)
        if got.shape != ref.shape:
            self.violations.append({"name": name, "key": key or name, "what": "shape",
                                    "got_shape": list(got.shape), "ref_shape": list(ref.shape)})
            return False
        d = _digest(ref)
        if d:
            self.digests.add(d)
        scale = np.abs(np.asarray(scale, dtype=float))
        bound = tol * scale + 1e-13 * scale + floor
        err = np.abs(got - ref)
        bad = ~(err <= bound)  # catches nan
        with np.errstate(divide="ignore", invalid="ignore"):
            marg = np.where(bound > 0, err / bound, np.where(err > 0, np.inf, 0.0))
        w = float(np.nanmax(marg)) if marg.size else 0.0
        if np.any(np.isnan(np.asarray(got, dtype=complex))):
            w = float("inf")
        if w > self.worst:
            self.worst, self.worst_name = w, name
        if np.any(bad):
            idx = np.unravel_index(int(np.argmax(np.where(np.isnan(marg), np.inf, marg))), marg.shape) if marg.ndim else ()
            self.violations.append({
                "name": name, "key": key or name, "what": "value",
                "index": [int(i) for i in idx],
                "got": _num(got[idx] if marg.ndim else got), "ref": _num(ref[idx] if marg.ndim else ref),
                "bound": float(np.broadcast_to(bound, err.shape)[idx]) if marg.ndim else float(bound),
                "n_bad": int(np.sum(bad)), "margin": w,
            })
            return False
        return True

    def same(self, name, got, ref, key=None):
        """Bit-for-bit equality."""
        self.validated += 1
        got = np.asarray(got)
        ref = np.asarray(ref)
        d = _digest(ref)
        if d:
            self.digests.add(d)
        ok = got.shape == ref.shape and np.array_equal(got, ref)
        if not ok:
            self.violations.append({"name": name, "key": key or name, "what": "not identical",
                                    "maxdiff": float(np.max(np.abs(got - ref))) if got.shape == ref.shape else None})
        return ok

    def check(self, name, cond, detail=None, key=None, token=None):
        self.validated += 1
        if token is not None:
            self.digests.add(hashlib.sha1(repr(token).encode()).hexdigest()[:16])
        if not cond:
            self.violations.append({"name": name, "key": key or name, "what": "predicate false",
                                    "detail": detail})
        return bool(cond)

    def raises(self, name, fn, key=None, exc=Exception):
        """The call must be rejected (any exception of type exc)."""
        self.validated += 1
        self.calls += 1
        self.digests.add(hashlib.sha1(("raises:" + name.split("[")[0]).encode()).hexdigest()[:16])
        try:
            r = fn()
        except exc as e:  # noqa
            return True
        self.violations.append({"name": name, "key": key or name, "what": "no exception raised",
                                "returned": _short(r)})
        return False

    def pack(self):
        return {"cfg": self.cfg, "calls": self.calls, "validated": self.validated,
                "digests": sorted(self.digests), "worst": self.worst, "worst_name": self.worst_name,
                "violations": self.violations, "notes": self.notes}


def _num(x):
    x = np.asarray(x)
    if np.iscomplexobj(x):
        return [float(x.real), float(x.imag)]
    return float(x)


def _short(r):
    try:
        a = np.asarray(r)
        return {"shape": list(a.shape), "head": [float(v) for v in np.ravel(a.real)[:4]]}
    except Exception:
        return repr(r)[:200]


# ------------------------------------------------------------------------------------------------
# runner
# ------------------------------------------------------------------------------------------------
_MOD = None


def _work(args):
    modname, cfgs = args
    import importlib

    mod = importlib.import_module(modname)
    out = []
    for cfg in cfgs:
        try:
            t0 = time.time()
            o = mod.evaluate(cfg)
            pk = o.pack()
            pk["wall"] = time.time() - t0
            out.append(pk)
        except Exception:
            out.append({"cfg": cfg, "calls": 0, "validated": 0, "digests": [], "worst": 0.0,
                        "worst_name": None, "notes": {},
                        "violations": [{"name": "exception while evaluating a configuration", "key": "EXCEPTION-IN-EVALUATE", "what": "the implementation (or the harness) raised on a request the configuration space defines as valid",
                                        "traceback": traceback.format_exc()[-3000:]}]})
    return out


def canon(cfg):
    return json.dumps(cfg, sort_keys=True, default=_jdefault)


def _jdefault(o):
    if isinstance(o, (np.integer,)):
        return int(o)
    if isinstance(o, (np.floating,)):
        return float(o)
    if isinstance(o, np.ndarray):
        return o.tolist()
    if hasattr(o, "to_json"):
        return o.to_json()
    raise TypeError(type(o))


def load_known():
    p = os.path.join(VERIF, "known_findings.json")
    if not os.path.exists(p):
        return {"open": [], "fixed": []}
    return json.load(open(p))


def run(mod, tier, replay=None, procs=None):
    """Exhaustively evaluate every configuration of `mod` for the tier; write evidence; return exit code."""
    import multiprocessing as mp

    t0 = time.time()
    pid = mod.ID
    sd = seed()
    if replay:
        return _replay(mod, replay)
    cfgs = list(mod.configs(tier, sd))
    keys = [canon(c) for c in cfgs]
    states = len(set(keys))
    procs = procs or int(os.environ.get("VERIF_PROCS", "0")) or min(16, os.cpu_count() or 1)
    chunk = max(1, min(getattr(mod, "CHUNK", 8), (len(cfgs) + procs * 4 - 1) // (procs * 4)))
    # round-robin-ish chunks in canonical order
    order = list(range(len(cfgs)))
    if hasattr(mod, "cost"):
        # dispatch expensive configurations first (load balance only; the set explored is unchanged)
        order.sort(key=lambda i: -mod.cost(cfgs[i]))
        chunk = 1
    jobs = [(mod.__name__, [cfgs[j] for j in order[i:i + chunk]]) for i in range(0, len(cfgs), chunk)]
    results = []
    if procs == 1 or len(jobs) == 1:
        for j in jobs:
            results.extend(_work(j))
    else:
        ctx = mp.get_context("fork")
        with ctx.Pool(procs) as pool:
            for r in pool.imap(_work, jobs):
                results.extend(r)
    calls = sum(r["calls"] for r in results)
    validated = sum(r["validated"] for r in results)
    digests = set()
    for r in results:
        digests.update(r["digests"])
    worst = max(results, key=lambda r: (r["worst"] if np.isfinite(r["worst"]) else 1e300)) if results else None
    bad = [r for r in results if r["violations"]]
    known = load_known()
    open_keys = [(k["property"], k["key"]) for k in known.get("open", [])]
    exit_code = 0
    n_viol = 0
    known_hit = {}
    harness_err = False
    for r in bad:
        unknown = []
        for v in r["violations"]:
            pass
            hit = [k for (p, k) in open_keys if p == pid and v["key"].startswith(k)]
            if hit:
                known_hit.setdefault(hit[0], 0)
                known_hit[hit[0]] += 1
            else:
                unknown.append(v)
        if unknown:
            n_viol += 1
            if n_viol <= 20:
                # confirm reproducibility in this (fresh) process before reporting
                if n_viol <= 3 and r.get("wall", 0) < 120:
                    try:
                        confirm = mod.evaluate(r["cfg"]).pack()
                    except Exception:
                        # the configuration raised again: that reproduces an "exception while evaluating" report
                        confirm = {"violations": [{"name": "exception while evaluating a configuration"}]}
                    same = canon([(v["name"], v.get("got")) for v in confirm["violations"]]) == canon(
                        [(v["name"], v.get("got")) for v in r["violations"]])
                else:
                    same = True  # only the first three violating configurations are re-executed
                path = _write_replay(pid, r, unknown, reproducible=same)
                if not same:
                    print("HARNESS-ERROR property=%s non-deterministic violation, see %s" % (pid, path))
                    harness_err = True
                print("VIOLATION property=%s replay=%s" % (pid, path))
                for v in unknown[:3]:
                    print("   ", json.dumps({k: v[k] for k in v if k != "traceback"}, default=_jdefault)[:600])
                    if "traceback" in v:
                        print(v["traceback"])
            exit_code = 1
    if os.environ.get("VERIF_PROFILE"):
        for r in sorted(results, key=lambda r: -r.get("wall", 0))[:12]:
            print("PROFILE %.1fs %s" % (r.get("wall", 0), canon(r["cfg"])[:160]))
        bykind = {}
        for r in results:
            k = str(r["cfg"].get("kind", r["cfg"].get("test", "")))
            bykind[k] = bykind.get(k, 0) + r.get("wall", 0)
        print("PROFILE by kind:", {k: round(v, 1) for k, v in bykind.items()})
    for k in known.get("open", []):
        if k["property"] == pid and known_hit.get(k["key"]):
            print("KNOWN-FINDING: property=%s %s (%d configurations)" % (pid, k["what"], known_hit[k["key"]]))
    wall = time.time() - t0
    samples = []
    if results:
        picks = sorted({0, len(results) // 2, len(results) - 1})
        for i in picks:
            smp = {"config": results[i]["cfg"], "observations_validated": results[i]["validated"],
                   "worst_margin": _fin(results[i]["worst"])}
            if results[i].get("notes", {}).get("_samples"):
                smp["traces"] = results[i]["notes"]["_samples"]
            samples.append(smp)
        if worst is not None:
            samples.append({"worst_margin_config": worst["cfg"], "worst_margin": _fin(worst["worst"]),
                            "observation": worst["worst_name"]})
    notes = {}
    for r in results:
        for k, v in r.get("notes", {}).items():
            if isinstance(v, (int, float)):
                if k.startswith("min_"):
                    notes[k] = min(notes.get(k, v), v)
                elif k.startswith("max_"):
                    notes[k] = max(notes.get(k, v), v)
                else:
                    notes[k] = notes.get(k, 0) + v
    cov = {
        "states": states,
        "transitions": calls,
        "traces_validated_against_impl": validated,
        "samples": samples,
        "exhaustive": True,
        "evaluations": len(cfgs),
        "distinct_nontrivial": len(digests),
        "rule": getattr(mod, "RULE", ""),
        "bounds": mod.bounds(tier) if hasattr(mod, "bounds") else {},
        "caps_hit": [],
        "worst_margin": _fin(worst["worst"]) if worst else 0.0,
        "notes": notes,
        "known_findings_hit": known_hit,
        "engine": getattr(mod, "ENGINE", "E1"),
        "repo": REPO,
    }
    if hasattr(mod, "post"):
        extra = mod.post(results, tier)
        if extra:
            cov.update(extra.get("coverage", {}))
            for line in extra.get("violations", []):
                exit_code = 1
                n_viol += 1
                print(line)
    ev = {
        "property_id": pid, "tier": tier, "seed": sd, "level": "model_checking", "coverage": cov,
        "assumptions": getattr(mod, "ASSUMPTIONS", []) + COMMON_ASSUMPTIONS,
        "wall_s": round(wall, 2), "violations": n_viol,
    }
    evdir = os.environ.get("VERIF_EVIDENCE_DIR") or os.path.join(VERIF, "evidence")
    os.makedirs(evdir, exist_ok=True)
    with open(os.path.join(evdir, "%s.json" % pid), "w") as f:
        json.dump(ev, f, indent=1, default=_jdefault)
    print("%s tier=%s seed=%d states=%d transitions=%d validated=%d distinct_nontrivial=%d worst_margin=%.3g "
          "violations=%d wall=%.1fs" % (pid, tier, sd, cov["states"], cov["transitions"], validated, len(digests),
                                        cov["worst_margin"], n_viol, wall))
    if harness_err and exit_code == 0:
        exit_code = 2
    return exit_code


COMMON_ASSUMPTIONS = [
    "continuous quantifiers (centres, exponents, coefficients, points) are represented by the finite alphabets of "
    "DESIGN.md section 4; every combination inside the stated bound is enumerated, values outside are not covered",
    "reference model: closed-form / McMurchie-Davidson formulas evaluated in numpy extended precision with mpmath "
    "Boys function; cross-checked against 34-digit mpmath and quadrature by mc/selftest.py",
    "IEEE double, numpy/scipy of /venv, single-threaded BLAS",
]


def _fin(x):
    x = float(x)
    return x if np.isfinite(x) else 1e300


def _write_replay(pid, r, unknown, reproducible=True):
    d = os.path.join(os.environ.get("VERIF_REPLAY_DIR") or os.path.join(VERIF, "replays"), pid)
    os.makedirs(d, exist_ok=True)
    h = hashlib.sha1(canon(r["cfg"]).encode()).hexdigest()[:12]
    path = os.path.join(d, "%s.json" % h)
    with open(path, "w") as f:
        json.dump({"property": pid, "config": r["cfg"], "violations": unknown, "reproducible": reproducible,
                   "seed": seed(), "how": "python mc/run.py %s --replay %s" % (pid, path)}, f, indent=1,
                  default=_jdefault)
    return path


def _replay(mod, path):
    d = json.load(open(path))
    os.environ["VERIF_SEED"] = str(d.get("seed", 0))
    o = mod.evaluate(d["config"]).pack()
    if o["violations"]:
        print("VIOLATION property=%s replay=%s" % (mod.ID, path))
        for v in o["violations"][:5]:
            print("   ", json.dumps(v, default=_jdefault)[:800])
        return 1
    print("replay %s: property holds on this configuration now (validated=%d)" % (path, o["validated"]))
    return 0
