"""Print a python source file without docstrings/blank lines (reading aid only)."""
import ast,sys
def strip(path):
    src=open(path).read()
    tree=ast.parse(src)
    lines=src.split('\n')
    rm=set()
    for node in ast.walk(tree):
        if isinstance(node,(ast.FunctionDef,ast.ClassDef,ast.Module)):
            if node.body and isinstance(node.body[0],ast.Expr) and isinstance(getattr(node.body[0],'value',None),ast.Constant) and isinstance(node.body[0].value.value,str):
                d=node.body[0]
                for i in range(d.lineno,d.end_lineno+1): rm.add(i)
    out=[]
    for i,l in enumerate(lines,1):
        if i in rm or not l.strip(): continue
        out.append(f"{i}: {l}")
    return '\n'.join(out)
for p in sys.argv[1:]:
    print('#####',p); print(strip(p))
