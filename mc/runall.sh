#!/bin/bash
# run every check of a tier sequentially; print one summary line per check
tier=${1:-quick}
cd "$(dirname "$0")/.."
rc=0
for i in 01 02 03 04 05 06 07 08 09 10 11 12 13 14 15 16 17 18 19 20; do
  out=$(/venv/bin/python mc/run.py C$i --tier $tier 2>&1); r=$?
  echo "$out" | grep -E "^(C$i tier|VIOLATION|KNOWN-FINDING|HARNESS)" | head -5
  [ $r -ne 0 ] && { echo "  -> exit $r"; rc=1; }
done
exit $rc
