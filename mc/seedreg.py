#!/venv/bin/python
"""Register a confirmed seeded change under /verif/seeded/<name>/ (patch.diff, demonstration, meta.json) and
rebuild seeded/INDEX.md.

  seedreg.py add <name> --property C07 --patch p.diff --demo demo.py --notes notes.md --result result.json
  seedreg.py index
"""
import argparse
import json
import os
import shutil
import sys

VERIF = os.path.dirname(os.path.dirname(os.path.abspath(__file__)))
SEEDED = os.path.join(VERIF, "seeded")


def add(a):
    d = os.path.join(SEEDED, a.name)
    os.makedirs(d, exist_ok=True)
    shutil.copy(a.patch, os.path.join(d, "patch.diff"))
    shutil.copy(a.demo, os.path.join(d, "demo.py"))
    notes = open(a.notes).read() if a.notes and os.path.exists(a.notes) else ""
    res = json.load(open(a.result)) if a.result and os.path.exists(a.result) else {}
    killed = sorted(c for c, r in res.get("checks", {}).items() if r.get("exit") == 1)
    silent = sorted(c for c, r in res.get("checks", {}).items() if r.get("exit") == 0)
    meta = {
        "name": a.name,
        "breaks_property": a.property,
        "origin": a.origin,
        "needs_to_manifest": a.needs or notes.strip()[:1500],
        "what_was_run": {
            "test_suite_with_patch": res.get("tests"),
            "demo_exit_unpatched": res.get("demo_unpatched_exit"),
            "demo_exit_patched": res.get("demo_patched_exit"),
            "checks_run_tier": a.tier,
            "checks_reporting_violation": killed,
            "checks_silent": silent,
            "first_violation": {c: res["checks"][c].get("first", "")[:300] for c in killed},
            "command": "python mc/mutate.py seeded/%s/patch.diff --tests --demo seeded/%s/demo.py --checks %s"
                       % (a.name, a.name, ",".join(killed + silent)),
        },
        "detected": bool(killed),
        "comment": a.comment or "",
    }
    json.dump(meta, open(os.path.join(d, "meta.json"), "w"), indent=1)
    if notes:
        open(os.path.join(d, "notes.md"), "w").write(notes)
    index()


def index():
    rows = []
    for name in sorted(os.listdir(SEEDED)):
        mp = os.path.join(SEEDED, name, "meta.json")
        if not os.path.exists(mp):
            continue
        m = json.load(open(mp))
        txt = str(m.get("needs_to_manifest", ""))
        np_ = os.path.join(SEEDED, name, "notes.md")
        if os.path.exists(np_):
            txt = open(np_).read()
        title = next((l.strip("# ").strip() for l in txt.split("\n") if l.strip()), "")
        keys = ("manifest", "trigger", "need", "shows", "only when", "only for", "only if")
        hits = [l.strip("-* ").strip() for l in txt.split("\n")[1:] if any(k in l.lower() for k in keys)]
        need = " ".join((title + " -- " + " ".join(hits[:2])).split())
        rows.append("| %s | %s | %s | %s | %s |" % (
            name, m["breaks_property"], need[:420].replace("|", "/"),
            ", ".join(m["what_was_run"]["checks_reporting_violation"]) or "**none**",
            ", ".join(m["what_was_run"]["checks_silent"]) or "-"))
    with open(os.path.join(SEEDED, "INDEX.md"), "w") as f:
        f.write("# Seeded property-breaking changes\n\nEach directory holds `patch.diff` (applies to /repo HEAD), `demo.py` "
                "(exit 1 with the patch, 0 without; run with PYTHONPATH=<tree>), `meta.json` and the author's notes. "
                "Every change passes the repository's 192 tests. None is ever committed to /repo.\n\n"
                "| change | property | what it needs to manifest | reported by (quick tier) | silent (of those run) |\n|---|---|---|---|---|\n")
        f.write("\n".join(rows) + "\n")
    print("indexed %d seeded changes" % len(rows))


def main():
    ap = argparse.ArgumentParser()
    sub = ap.add_subparsers(dest="cmd")
    p = sub.add_parser("add")
    p.add_argument("name")
    p.add_argument("--property", required=True)
    p.add_argument("--patch", required=True)
    p.add_argument("--demo", required=True)
    p.add_argument("--notes")
    p.add_argument("--result")
    p.add_argument("--needs")
    p.add_argument("--origin", default="fresh sub-agent given only the property text and a scratch worktree")
    p.add_argument("--tier", default="quick")
    p.add_argument("--comment")
    sub.add_parser("index")
    a = ap.parse_args()
    os.makedirs(SEEDED, exist_ok=True)
    if a.cmd == "add":
        add(a)
    else:
        index()


if __name__ == "__main__":
    main()
