#!/venv/bin/python
"""Entry point:  /venv/bin/python mc/run.py <ID> [--tier quick|thorough] [--replay FILE]"""
import argparse
import importlib
import os
import sys

sys.dont_write_bytecode = True
HERE = os.path.dirname(os.path.abspath(__file__))
sys.path.insert(0, os.path.dirname(HERE))

from mc import core  # noqa: E402


def main():
    ap = argparse.ArgumentParser()
    ap.add_argument("id")
    ap.add_argument("--tier", default="quick", choices=["quick", "thorough"])
    ap.add_argument("--replay")
    ap.add_argument("--procs", type=int, default=0)
    a = ap.parse_args()
    tier = os.environ.get("VERIF_TIER") or a.tier
    if tier not in ("quick", "thorough"):
        tier = a.tier
    mod = importlib.import_module("mc.props.%s" % a.id)
    core.gb()
    rc = core.run(mod, tier, replay=a.replay, procs=a.procs or None)
    sys.exit(rc)


if __name__ == "__main__":
    main()
