"""Shared pass/fail bookkeeping of the self-tests."""
FAILS = []


def ok(name, cond, detail=""):
    print(("ok   " if cond else "FAIL ") + name + (" " + str(detail) if detail else ""), flush=True)
    if not cond:
        FAILS.append(name)
