"""C19  calls are pure: arguments, shells and global numerical state never change (engine E3)."""
import os
import tempfile

import numpy as np

from ..core import Obs, gb, hvec
from ..history import HistoryExplorer, Op
from ..ref import writer as W
from . import C18

ID = "C19"
ENGINE = "E3 call-history BFS"
RULE = ("shared world = three shells (generalized spherical, Cartesian d, s) referenced from a tuple and a list, points, "
        "charges, nuclei, moment origin and orders, two density matrices, two transformations, coord_types list and "
        "tuple, a parsed basis dictionary and basis files; alphabet = every public integral / evaluation / density / "
        "stress / ESP / import function with valid arguments, the same with one deliberately invalid argument each, "
        "parameter updates shell.exps / coeffs / coord := alternatives, and assign_norm_cont(); BFS over call sequences "
        "until no new state appears (the reachable state set is finite, so closure covers sequences of every length, not "
        "only <= 30). Invariants on every transition: I1 arguments bit-identical (except declared update targets), I2 "
        "numpy error state / warnings filters / module globals unchanged on return and on raise, I3 repeated call "
        "bit-identical and probe calls independent of the path by which a state was reached, I4 after assign_norm_cont the "
        "shell's own overlap diagonal is 1 and a freshly constructed shell has the same norm_cont. Seeds differ in the "
        "initial numpy error state and in which shell is updated.")
ASSUMPTIONS = ["the state key contains every object a later call can read (arguments and module state), so equal keys have "
               "equal futures unless the library keeps hidden state - which is what the history-independence probes detect"]
CHUNK = 1


def bounds(tier):
    return {"operations": "see evidence notes (about 60)", "seeds": 3 if tier == "quick" else 8,
            "depth_bound": 30, "state_cap": 60 if tier == "quick" else 400, "search": "BFS to closure"}


def configs(tier, seed):
    out = [{"seed": 0, "mutable": 0, "err": "default", "alts": 1, "tier": tier},
           {"seed": 1, "mutable": 1, "err": "divide-raise", "alts": 1, "tier": tier},
           {"seed": 2, "mutable": 2, "err": "all-warn", "alts": 1, "tier": tier}]
    if tier != "quick":
        out += [{"seed": 3, "mutable": 0, "err": "default", "alts": 2, "tier": tier},
                {"seed": 4, "mutable": 1, "err": "default", "alts": 2, "tier": tier},
                {"seed": 5, "mutable": 2, "err": "divide-raise", "alts": 2, "tier": tier},
                {"seed": 6, "mutable": 0, "err": "all-ignore", "alts": 1, "tier": tier},
                {"seed": 7, "mutable": 1, "err": "all-warn", "alts": 2, "tier": tier}]
    # each search is run in n processes that share the state-discovering operations and split the others
    n = 5 if tier == "quick" else 2
    return [dict(c, shard=[k, n]) for c in out for k in range(n)]


def cost(cfg):
    return cfg["alts"] * 10 + cfg["seed"]


def make_world_factory(cfg, tmpdir):
    gb()
    from gbasis.contractions import GeneralizedContractionShell as S
    from gbasis import parsers

    base = {"kind": "files", "elems": 1, "shells": 1, "K": 2, "ncol": 2}
    basis = C18.abstract_basis(base, "E", "D")
    nw = os.path.join(tmpdir, "c19.nwchem")
    gbs = os.path.join(tmpdir, "c19.gbs")
    with open(nw, "w") as f:
        f.write(W.write_nwchem(basis, "header", "comment", True))
    with open(gbs, "w") as f:
        f.write(W.write_gbs(basis, "many", "blank", True))
    sd = cfg["seed"]

    def make_world():
        c = [np.array(hvec("c19-c%d-%d" % (sd, i), 3, -1, 1)) for i in range(3)]
        # the arrays handed to the constructors stay in the world ("ctor_args"): a later parameter update of a
        # shell must leave what the caller passed earlier bit-identical (deepcopy keeps the sharing)
        ctor = [np.array([[0.6, -0.2], [0.5, 0.9]]), np.array([0.8, 2.6]), np.array([1.0]), np.array([1.3]),
                np.array([0.4, 0.7, 0.2]), np.array([0.3, 1.9, 11.0]), c[0].copy(), c[1].copy(), c[2].copy()]
        s0 = S(1, ctor[6], ctor[0], ctor[1], "spherical")
        s1 = S(2, ctor[7], ctor[2], ctor[3], "cartesian")
        s2 = S(0, ctor[8], ctor[4], ctor[5], "cartesian")
        shells = [s0, s1, s2]
        n = 2 * 3 + 6 + 1
        X = np.array([hvec("c19-X%d" % r, n, -1, 1) for r in range(n)])
        w = {
            "shells": shells, "basis_tuple": tuple(shells), "basis_list": list(shells), "ctor_args": ctor,
            "points": np.array([hvec("c19-p%d" % i, 3, -2, 2) for i in range(4)]),
            "charge_coords": np.array([c[0] + 0.3, c[2] - 0.2]), "charges": np.array([1.0, -3.0]),
            "nuc_coords": np.array([c[0], c[1], c[2]]), "nuc_charges": np.array([1.0, 6.0, 2.0]),
            "origin": np.array(hvec("c19-o", 3, -1, 1)), "orders": np.array([[1, 0, 0], [0, 2, 1]]),
            "deriv_orders": np.array([1, 0, 2]),
            "gam_psd": X @ X.T, "gam_sym": (X + X.T) / 2, "gam_asym": X.copy(),
            # symmetric only to round-off (as produced by C^T n C): passes the library's allclose test
            "gam_round": (X + X.T) / 2 + 1e-15 * np.triu(X, 1),
            "T_sq": np.array([hvec("c19-T%d" % r, n, -1, 1) for r in range(n)]),
            "T_rect": np.array([hvec("c19-R%d" % r, n, -1, 1) for r in range(4)]),
            "T_bad": np.ones((3, n + 2)),
            "ct_list": ["spherical", "cartesian", "spherical", "cartesian", "cartesian", "spherical"][:0] or None,
            "files": (nw, gbs),
            "alt_exps": [np.array([0.8, 2.6]), np.array([0.5, 3.1]), np.array([1.7, 0.9])],
            "alt_coeffs": [np.array([[0.6, -0.2], [0.5, 0.9]]), np.array([[0.1, 0.8], [-0.7, 0.3]]), np.array([[1.0, 1.0], [0.2, -0.4]])],
            "alt_coord": [c[0].copy(), c[0] + np.array([0.3, -0.1, 0.2]), np.array([0.0, 0.0, 0.0])],
        }
        bd = parsers.parse_nwchem(nw)
        w["basis_dict"] = bd
        w["atoms"] = ["He", "C", "He"]
        w["atom_coords"] = np.array([hvec("c19-a%d" % i, 3, -2, 2) for i in range(3)])
        nsh = sum(len(bd[a]) for a in w["atoms"])
        w["ct_list"] = ["spherical" if i % 2 else "cartesian" for i in range(nsh)]
        w["ct_tuple"] = tuple(w["ct_list"])
        return w

    return make_world


def _mc_update(w):
    """shells of equal elements are built from the same dictionary entries: updating one shell's parameters must
    not reach the dictionary (checked by I1) nor the other atoms' shells (returned)"""
    from gbasis import parsers
    from gbasis.integrals.overlap import overlap_integral

    sh = parsers.make_contractions(w["basis_dict"], w["atoms"], w["atom_coords"], "cartesian")
    sh[0].exps = sh[0].exps * 1.25
    sh[0].coeffs = sh[0].coeffs * 0.5
    sh[0].coord = sh[0].coord + 1.0
    sh[0].assign_norm_cont()
    return _shells_digest(sh[1:]), overlap_integral(sh)


def build_ops(cfg):
    gb()
    from gbasis import parsers
    from gbasis.contractions import GeneralizedContractionShell as S
    from gbasis.evals import density as dn
    from gbasis.evals import stress_tensor as st
    from gbasis.evals.electrostatic_potential import electrostatic_potential
    from gbasis.evals.eval import evaluate_basis
    from gbasis.evals.eval_deriv import evaluate_deriv_basis
    from gbasis.integrals.angular_momentum import angular_momentum_integral
    from gbasis.integrals.electron_repulsion import electron_repulsion_integral
    from gbasis.integrals.kinetic_energy import kinetic_energy_integral
    from gbasis.integrals.moment import moment_integral
    from gbasis.integrals.momentum import momentum_integral
    from gbasis.integrals.nuclear_electron_attraction import nuclear_electron_attraction_integral
    from gbasis.integrals.overlap import overlap_integral
    from gbasis.integrals.overlap_asymm import overlap_integral_asymmetric
    from gbasis.integrals.point_charge import point_charge_integral
    from gbasis.spherical import generate_transformation

    B = "basis_tuple"
    ops = [
        Op("overlap_integral", lambda w: overlap_integral(w[B])),
        Op("overlap_integral(list, T_rect)", lambda w: overlap_integral(w["basis_list"], transform=w["T_rect"])),
        Op("overlap_integral(tol_screen)", lambda w: overlap_integral(w[B], tol_screen=1e-3)),
        Op("overlap_integral_asymmetric", lambda w: overlap_integral_asymmetric(w["basis_list"][:1], w[B], None, w["T_sq"])),
        Op("kinetic_energy_integral", lambda w: kinetic_energy_integral(w[B])),
        Op("momentum_integral", lambda w: momentum_integral(w[B], transform=w["T_sq"])),
        Op("angular_momentum_integral", lambda w: angular_momentum_integral(w["basis_list"])),
        Op("moment_integral", lambda w: moment_integral(w[B], w["origin"], w["orders"])),
        Op("point_charge_integral", lambda w: point_charge_integral(w[B], w["charge_coords"], w["charges"])),
        Op("nuclear_electron_attraction_integral",
           lambda w: nuclear_electron_attraction_integral(w["basis_list"], w["nuc_coords"], w["nuc_charges"], transform=w["T_rect"])),
        Op("electron_repulsion_integral", lambda w: electron_repulsion_integral(w[B][1:], notation="chemist")),
        Op("electron_repulsion_integral(T)", lambda w: electron_repulsion_integral(w["basis_list"][:2], transform=w["T_rect"][:, :12])),
        Op("evaluate_basis", lambda w: evaluate_basis(w[B], w["points"])),
        Op("evaluate_deriv_basis general", lambda w: evaluate_deriv_basis(w[B], w["points"], w["deriv_orders"], transform=w["T_sq"])),
        Op("evaluate_deriv_basis direct", lambda w: evaluate_deriv_basis(w["basis_list"], w["points"], np.array([0, 2, 1]), deriv_type="direct")),
        Op("evaluate_density", lambda w: dn.evaluate_density(w["gam_psd"], w[B], w["points"])),
        Op("evaluate_deriv_density", lambda w: dn.evaluate_deriv_density(w["deriv_orders"], w["gam_sym"], w[B], w["points"])),
        Op("evaluate_density_gradient", lambda w: dn.evaluate_density_gradient(w["gam_sym"], w["basis_list"], w["points"], deriv_type="direct")),
        Op("evaluate_density_laplacian", lambda w: dn.evaluate_density_laplacian(w["gam_psd"], w[B], w["points"], transform=w["T_sq"])),
        Op("evaluate_density_laplacian(matrix symmetric to round-off)", lambda w: dn.evaluate_density_laplacian(w["gam_round"], w[B], w["points"])),
        Op("evaluate_density(matrix symmetric to round-off)", lambda w: dn.evaluate_density(w["gam_round"] + np.eye(len(w["gam_round"])) * 50, w[B], w["points"])),
        Op("evaluate_stress_tensor(matrix symmetric to round-off)", lambda w: st.evaluate_stress_tensor(w["gam_round"], w[B], w["points"], alpha=0.5, beta=1.0)),
        Op("evaluate_density_gradient(matrix symmetric to round-off)", lambda w: dn.evaluate_density_gradient(w["gam_round"], w[B], w["points"])),
        Op("electrostatic_potential(matrix symmetric to round-off)", lambda w: electrostatic_potential(w[B], w["gam_round"], w["points"], w["nuc_coords"], w["nuc_charges"])),
        Op("evaluate_density_hessian", lambda w: dn.evaluate_density_hessian(w["gam_sym"], w[B], w["points"])),
        Op("evaluate_posdef_kinetic_energy_density", lambda w: dn.evaluate_posdef_kinetic_energy_density(w["gam_psd"], w[B], w["points"])),
        Op("evaluate_general_kinetic_energy_density", lambda w: dn.evaluate_general_kinetic_energy_density(w["gam_psd"], w[B], w["points"], 0.4)),
        Op("electrostatic_potential", lambda w: electrostatic_potential(w[B], w["gam_sym"], w["points"], w["nuc_coords"], w["nuc_charges"])),
        Op("electrostatic_potential(point on nucleus, threshold)",
           lambda w: electrostatic_potential(w["basis_list"], w["gam_psd"], w["nuc_coords"], w["nuc_coords"], w["nuc_charges"], threshold_dist=0.1)),
        Op("electrostatic_potential(point on nucleus, threshold 0)",
           lambda w: electrostatic_potential(w["basis_list"], w["gam_psd"], w["nuc_coords"], w["nuc_coords"], w["nuc_charges"])),
        Op("evaluate_stress_tensor", lambda w: st.evaluate_stress_tensor(w["gam_sym"], w[B], w["points"], alpha=0.3, beta=1)),
        Op("evaluate_ehrenfest_force", lambda w: st.evaluate_ehrenfest_force(w["gam_sym"], w[B], w["points"][:2], alpha=0.5, beta=0.2)),
        Op("evaluate_ehrenfest_hessian", lambda w: st.evaluate_ehrenfest_hessian(w["gam_psd"], w[B], w["points"][:1], alpha=1, beta=0, symmetric=True)),
        Op("generate_transformation", lambda w: generate_transformation(2, w[B][1].angmom_components_cart, w[B][1].angmom_components_sph, "left")),
        Op("parse_nwchem", lambda w: parsers.parse_nwchem(w["files"][0])),
        Op("parse_gbs", lambda w: parsers.parse_gbs(w["files"][1])),
        Op("parse_nwchem, caller edits the result, parse again", lambda w: _parse_edit_parse(parsers.parse_nwchem, w["files"][0])),
        Op("parse_gbs, caller edits the result, parse again", lambda w: _parse_edit_parse(parsers.parse_gbs, w["files"][1])),
        Op("overlap, caller edits the result, overlap again", lambda w: _call_edit_call(lambda: overlap_integral(w[B]))),
        Op("generate_transformation, caller edits the result, again",
           lambda w: _call_edit_call(lambda: generate_transformation(2, w[B][1].angmom_components_cart, w[B][1].angmom_components_sph, "left"))),
        Op("evaluate_basis, caller edits the result, again", lambda w: _call_edit_call(lambda: evaluate_basis(w[B], w["points"]))),
        Op("make_contractions(str)", lambda w: _shells_digest(parsers.make_contractions(w["basis_dict"], w["atoms"], w["atom_coords"], "p"))),
        Op("make_contractions(list)", lambda w: _shells_digest(parsers.make_contractions(w["basis_dict"], w["atoms"], w["atom_coords"], w["ct_list"]))),
        Op("make_contractions(tuple)", lambda w: _shells_digest(parsers.make_contractions(w["basis_dict"], w["atoms"], w["atom_coords"], w["ct_tuple"]))),
        # ---- deliberately invalid requests: must raise and leave everything intact
        Op("INVALID overlap(non-shell in basis)", lambda w: overlap_integral([w[B][0], "x"]), "invalid"),
        Op("INVALID overlap(T of wrong width)", lambda w: overlap_integral(w[B], transform=w["T_bad"]), "invalid"),
        Op("INVALID overlap(tol_screen=True)", lambda w: overlap_integral(w[B], tol_screen=True), "invalid"),
        Op("INVALID moment(float orders)", lambda w: moment_integral(w[B], w["origin"], w["orders"].astype(float)), "invalid"),
        Op("INVALID moment(origin list)", lambda w: moment_integral(w[B], list(w["origin"]), w["orders"]), "invalid"),
        Op("INVALID point_charge(charge count)", lambda w: point_charge_integral(w[B], w["charge_coords"], w["nuc_charges"]), "invalid"),
        Op("INVALID point_charge(points shape)", lambda w: point_charge_integral(w[B], w["charge_coords"][:, :2], w["charges"]), "invalid"),
        Op("INVALID eri(notation)", lambda w: electron_repulsion_integral(w[B], notation="mulliken"), "invalid"),
        Op("INVALID evaluate_basis(points shape)", lambda w: evaluate_basis(w[B], w["points"][:, :2]), "invalid"),
        Op("INVALID evaluate_deriv_basis(negative order)", lambda w: evaluate_deriv_basis(w[B], w["points"], np.array([0, -1, 0])), "invalid"),
        Op("INVALID evaluate_deriv_basis(direct, order 3)", lambda w: evaluate_deriv_basis(w[B], w["points"], np.array([3, 0, 0]), deriv_type="direct"), "invalid"),
        Op("INVALID evaluate_density(asymmetric matrix)", lambda w: dn.evaluate_density(w["gam_asym"], w[B], w["points"]), "invalid"),
        Op("INVALID evaluate_density(negative beyond threshold)", lambda w: dn.evaluate_density(-w["gam_psd"], w[B], w["points"]), "invalid"),
        Op("INVALID evaluate_density(matrix size)", lambda w: dn.evaluate_density(w["gam_psd"][:5, :5], w[B], w["points"]), "invalid"),
        Op("INVALID posdef KED(negative beyond threshold)", lambda w: dn.evaluate_posdef_kinetic_energy_density(-w["gam_psd"], w[B], w["points"]), "invalid"),
        Op("INVALID general KED(alpha str)", lambda w: dn.evaluate_general_kinetic_energy_density(w["gam_psd"], w[B], w["points"], "1"), "invalid"),
        Op("INVALID esp(negative threshold)", lambda w: electrostatic_potential(w[B], w["gam_sym"], w["points"], w["nuc_coords"], w["nuc_charges"], threshold_dist=-1.0), "invalid"),
        Op("INVALID esp(asymmetric matrix)", lambda w: electrostatic_potential(w[B], w["gam_asym"], w["points"], w["nuc_coords"], w["nuc_charges"]), "invalid"),
        Op("INVALID esp(charge count)", lambda w: electrostatic_potential(w[B], w["gam_sym"], w["points"], w["nuc_coords"], w["charges"]), "invalid"),
        Op("INVALID esp(matrix size with T)", lambda w: electrostatic_potential(w[B], w["gam_sym"], w["points"], w["nuc_coords"], w["nuc_charges"], transform=w["T_rect"]), "invalid"),
        Op("INVALID esp(points with 2 columns)", lambda w: electrostatic_potential(w[B], w["gam_sym"], w["points"][:, :2], w["nuc_coords"], w["nuc_charges"]), "invalid"),
        Op("INVALID esp(T of wrong width)", lambda w: electrostatic_potential(w[B], w["gam_sym"][:3, :3], w["points"], w["nuc_coords"], w["nuc_charges"], transform=w["T_bad"]), "invalid"),
        Op("INVALID esp(complex points)", lambda w: electrostatic_potential(w[B], w["gam_sym"], w["points"].astype(complex), w["nuc_coords"], w["nuc_charges"]), "invalid"),
        Op("INVALID point_charge(complex points)", lambda w: point_charge_integral(w[B], w["charge_coords"].astype(complex), w["charges"]), "invalid"),
        Op("INVALID kinetic(T of wrong width)", lambda w: kinetic_energy_integral(w[B], transform=w["T_bad"]), "invalid"),
        Op("INVALID eri(T of wrong width)", lambda w: electron_repulsion_integral(w[B][:2], transform=w["T_bad"]), "invalid"),
        Op("INVALID evaluate_density(T of wrong width)", lambda w: dn.evaluate_density(w["gam_psd"][:3, :3], w[B], w["points"], transform=w["T_bad"]), "invalid"),
        Op("INVALID stress(alpha str)", lambda w: st.evaluate_stress_tensor(w["gam_sym"], w[B], w["points"], alpha="a"), "invalid"),
        Op("INVALID force(beta None)", lambda w: st.evaluate_ehrenfest_force(w["gam_sym"], w[B], w["points"], beta=None), "invalid"),
        Op("INVALID generate_transformation(labels)", lambda w: generate_transformation(1, w[B][0].angmom_components_cart, ("c1", "s-1", "c0"), "left"), "invalid"),
        Op("INVALID parse_nwchem(missing file)", lambda w: parsers.parse_nwchem(w["files"][0] + ".missing"), "invalid"),
        Op("make_contractions then update the first shell's parameters", lambda w: _mc_update(w)),
        Op("INVALID make_contractions(atom count)", lambda w: parsers.make_contractions(w["basis_dict"], w["atoms"][:2], w["atom_coords"], "c"), "invalid"),
        Op("INVALID make_contractions(coord_types length)", lambda w: parsers.make_contractions(w["basis_dict"], w["atoms"], w["atom_coords"], w["ct_list"][:-1]), "invalid"),
        Op("INVALID make_contractions(coord_types word)", lambda w: parsers.make_contractions(w["basis_dict"], w["atoms"], w["atom_coords"], "pure"), "invalid"),
        Op("INVALID shell(coord list)", lambda w: S(1, [0.0, 0.0, 0.0], np.array([1.0]), np.array([1.0]), "c"), "invalid"),
        Op("INVALID shell.exps(size)", lambda w: setattr(w["shells"][0], "exps", np.array([1.0, 2.0, 3.0])), "invalid"),
        Op("INVALID shell.coord_type", lambda w: setattr(w["shells"][1], "coord_type", "polar"), "invalid"),
        # a rejected update / import must leave the objects as they were (every later call still works)
        Op("INVALID shell.coeffs(rows)", lambda w: setattr(w["shells"][0], "coeffs", np.array([[0.1, 0.2], [0.3, 0.4], [0.5, 0.6]])), "invalid"),
        Op("INVALID shell.coeffs(1-D of wrong length)", lambda w: setattr(w["shells"][2], "coeffs", np.array([0.1, 0.2])), "invalid"),
        Op("INVALID shell.coeffs(3-D)", lambda w: setattr(w["shells"][0], "coeffs", np.ones((2, 2, 1))), "invalid"),
        Op("INVALID shell.coeffs(list)", lambda w: setattr(w["shells"][1], "coeffs", [1.0]), "invalid"),
        Op("INVALID shell.coord(shape)", lambda w: setattr(w["shells"][1], "coord", np.zeros(2)), "invalid"),
        Op("INVALID shell.angmom(negative)", lambda w: setattr(w["shells"][1], "angmom", -1), "invalid"),
        Op("INVALID make_contractions(element not in the dictionary)",
           lambda w: parsers.make_contractions(w["basis_dict"], ["He", "Xx", "He"], w["atom_coords"], "c"), "invalid"),
        Op("INVALID make_contractions(coords with 2 columns)",
           lambda w: parsers.make_contractions(w["basis_dict"], w["atoms"], w["atom_coords"][:, :2], "c"), "invalid"),
    ]
    m = cfg["mutable"]
    tg = ("shells", "basis_tuple", "basis_list")
    nalt = 1 + cfg["alts"]
    if m == 0:
        for i in range(nalt):
            ops.append(Op("UPDATE shell0.exps := alt%d" % i, lambda w, i=i: setattr(w["shells"][0], "exps", w["alt_exps"][i].copy()), "update", tg))
            ops.append(Op("UPDATE shell0.coeffs := alt%d" % i, lambda w, i=i: setattr(w["shells"][0], "coeffs", w["alt_coeffs"][i].copy()), "update", tg))
        ops.append(Op("RENORM shell0.assign_norm_cont()", lambda w: w["shells"][0].assign_norm_cont(), "renorm", tg))
    elif m == 1:
        for i in range(nalt):
            ops.append(Op("UPDATE shell0.coord := alt%d" % i, lambda w, i=i: setattr(w["shells"][0], "coord", w["alt_coord"][i].copy()), "update", tg))
        ops.append(Op("UPDATE shell1.coord := shifted", lambda w: setattr(w["shells"][1], "coord", w["alt_coord"][1] + 0.5), "update", tg))
        ops.append(Op("UPDATE shell1.coord := origin", lambda w: setattr(w["shells"][1], "coord", np.zeros(3)), "update", tg))
        ops.append(Op("UPDATE shell0.coord_type := p (same type, other spelling)", lambda w: setattr(w["shells"][0], "coord_type", "p"), "update", tg))
        ops.append(Op("RENORM shell0.assign_norm_cont()", lambda w: w["shells"][0].assign_norm_cont(), "renorm", tg))
    else:
        for i in range(nalt):
            ops.append(Op("UPDATE shell2.coeffs column scale %d" % i,
                          lambda w, i=i: setattr(w["shells"][2], "coeffs", np.array([0.4, 0.7, 0.2]) * (1.0, 3.0, -0.5)[i]), "update", tg))
        ops.append(Op("UPDATE shell2.exps := alt", lambda w: setattr(w["shells"][2], "exps", np.array([0.3, 1.9, 11.0]) * 1.5), "update", tg))
        ops.append(Op("UPDATE shell2.exps := orig", lambda w: setattr(w["shells"][2], "exps", np.array([0.3, 1.9, 11.0])), "update", tg))
        ops.append(Op("RENORM shell2.assign_norm_cont()", lambda w: w["shells"][2].assign_norm_cont(), "renorm", tg))
    return ops


def _parse_edit_parse(parser, path):
    """the object returned to the caller belongs to the caller: editing it must not affect a later parse"""
    first = parser(path)
    import copy as _c
    ref = _c.deepcopy(first)
    for k in list(first):
        first[k].clear()
    first["Xx"] = []
    second = parser(path)
    return (ref, second, _same_parsed(ref, second))


def _same_parsed(a, b):
    if list(a.keys()) != list(b.keys()):
        return False
    for k in a:
        if len(a[k]) != len(b[k]):
            return False
        for x, y in zip(a[k], b[k]):
            if x[0] != y[0] or not np.array_equal(x[1], y[1]) or not np.array_equal(x[2], y[2]):
                return False
    return True


def _call_edit_call(fn):
    first = fn()
    ref = first.copy()
    first[...] = 7.0
    second = fn()
    return (ref, second, bool(np.array_equal(ref, second)))


def probe_list():
    gb()
    from gbasis.evals.eval import evaluate_basis
    from gbasis.evals.eval_deriv import evaluate_deriv_basis
    from gbasis.integrals.electron_repulsion import electron_repulsion_integral
    from gbasis.integrals.kinetic_energy import kinetic_energy_integral
    from gbasis.integrals.moment import moment_integral
    from gbasis.integrals.momentum import momentum_integral
    from gbasis.integrals.overlap import overlap_integral
    from gbasis.integrals.point_charge import point_charge_integral
    from gbasis.spherical import generate_transformation

    return [("overlap", lambda w: overlap_integral(w["basis_tuple"])),
            ("kinetic", lambda w: kinetic_energy_integral(w["basis_list"])),
            ("evaluate_basis", lambda w: evaluate_basis(w["basis_tuple"], w["points"])),
            ("point_charge", lambda w: point_charge_integral(w["basis_tuple"], w["charge_coords"], w["charges"], transform=w["T_rect"])),
            ("point_charge other charges", lambda w: point_charge_integral(w["basis_tuple"], w["nuc_coords"], w["nuc_charges"])),
            ("momentum", lambda w: momentum_integral(w["basis_tuple"])),
            ("moment", lambda w: moment_integral(w["basis_list"], w["origin"], w["orders"])),
            ("moment other origin", lambda w: moment_integral(w["basis_list"], w["origin"][::-1] + 0.5, w["orders"][::-1])),
            ("eri", lambda w: electron_repulsion_integral(w["basis_tuple"][:2], notation="chemist")),
            ("deriv", lambda w: evaluate_deriv_basis(w["basis_tuple"], w["points"], w["deriv_orders"])),
            ("evaluate_basis other points", lambda w: evaluate_basis(w["basis_tuple"], w["nuc_coords"])),
            ("transformation other cartesian order", lambda w: generate_transformation(
                2, w["basis_tuple"][1].angmom_components_cart[::-1], w["basis_tuple"][1].angmom_components_sph, "left")),
            ("norms", lambda w: [s.norm_cont for s in w["shells"]])]


def probe_names():
    return [n for n, _ in probe_list()]


def _probe_digests(w, only=None):
    from ..history import result_digest

    out = {}
    for name, fn in probe_list():
        if only is not None and name != only:
            continue
        try:
            out[name] = ("ok", result_digest(fn(w)))
        except Exception as e:  # noqa
            out[name] = ("raise", type(e).__name__)
    return out


class FreshProcess:
    """A separate, freshly started interpreter (mc/zygote.py) that evaluates the probes for a pickled world in a
    forked child without any call history."""

    def __init__(self):
        import subprocess
        import sys as _sys
        from ..core import REPO, VERIF

        env = dict(os.environ, GBASIS_VERIF_REPO=REPO)
        self.proc = subprocess.Popen([_sys.executable, os.path.join(VERIF, "mc", "zygote.py")], stdin=subprocess.PIPE,
                                     stdout=subprocess.PIPE, env=env)

    def __call__(self, w):
        import pickle as _p
        import struct

        msg = _p.dumps(w)
        self.proc.stdin.write(struct.pack("<Q", len(msg)))
        self.proc.stdin.write(msg)
        self.proc.stdin.flush()
        n = struct.unpack("<Q", self.proc.stdout.read(8))[0]
        return _p.loads(self.proc.stdout.read(n))

    def close(self):
        import struct

        try:
            self.proc.stdin.write(struct.pack("<Q", 0))
            self.proc.stdin.flush()
            self.proc.wait(5)
        except Exception:
            self.proc.kill()


def rebuild_world(w):
    """same world with every shell re-created from its documented attributes (fresh objects, no hidden state)"""
    import copy as _c
    from gbasis.contractions import GeneralizedContractionShell as S

    w2 = _c.deepcopy(w)
    new = []
    for s in w2["shells"]:
        f = S(s.angmom, s.coord.copy(), s.coeffs.copy(), s.exps.copy(), s.coord_type, icenter=s.icenter)
        f.norm_cont = s.norm_cont.copy()
        new.append(f)
    w2["shells"] = new
    w2["basis_tuple"] = tuple(new)
    w2["basis_list"] = list(new)
    return w2


def _shells_digest(shells):
    return [(s.angmom, s.coord.copy(), s.exps.copy(), s.coeffs.copy(), s.coord_type, s.icenter, s.norm_cont.copy()) for s in shells]


def on_renorm_factory(cfg):
    from gbasis.contractions import GeneralizedContractionShell as S
    from gbasis.integrals.overlap import overlap_integral

    idx = {0: 0, 1: 0, 2: 2}[cfg["mutable"]]

    def on_renorm(o, w, label):
        sh = w["shells"][idx]
        d = np.diag(overlap_integral([sh]))
        o.call()
        o.cmp("I4 unit-normalised after assign_norm_cont: " + label, d, np.ones(len(d)), 1e-12, 1.0, key="I4-renorm-diagonal")
        fresh = S(sh.angmom, sh.coord.copy(), sh.coeffs.copy(), sh.exps.copy(), sh.coord_type)
        o.same("I4 fresh shell has the same norm_cont: " + label, sh.norm_cont, fresh.norm_cont, key="I4-fresh-norm")

    return on_renorm


def evaluate(cfg):
    gb()
    from gbasis.evals.eval import evaluate_basis
    from gbasis.evals.eval_deriv import evaluate_deriv_basis
    from gbasis.integrals.electron_repulsion import electron_repulsion_integral
    from gbasis.integrals.kinetic_energy import kinetic_energy_integral
    from gbasis.integrals.moment import moment_integral
    from gbasis.integrals.momentum import momentum_integral
    from gbasis.integrals.overlap import overlap_integral
    from gbasis.integrals.point_charge import point_charge_integral

    o = Obs(cfg)
    old = np.geterr()
    err = cfg["err"]
    if err == "divide-raise":
        np.seterr(divide="raise")
    elif err == "all-warn":
        np.seterr(all="warn")
    elif err == "all-ignore":
        np.seterr(all="ignore")
    tmpdir = tempfile.mkdtemp(prefix="c19-")
    try:
        mk = make_world_factory(cfg, tmpdir)
        ops = build_ops(cfg)
        probes = probe_list()
        parts = ["shells", "basis_tuple", "basis_list", "points", "charge_coords", "charges", "nuc_coords", "nuc_charges",
                 "origin", "orders", "deriv_orders", "gam_psd", "gam_sym", "gam_asym", "gam_round", "T_sq", "T_rect", "T_bad", "ct_list", "ctor_args",
                 "ct_tuple", "basis_dict", "atoms", "atom_coords", "alt_exps", "alt_coeffs", "alt_coord", "files"]
        import warnings

        with warnings.catch_warnings():
            warnings.simplefilter("ignore")
            ex = HistoryExplorer(o, mk, ops, probes, parts, max_depth=30,
                                 max_states=60 if cfg.get("tier") == "quick" else 400,
                                 on_renorm=on_renorm_factory(cfg), rebuild=rebuild_world,
                                 shard=tuple(cfg.get("shard", (0, 1))))
            fresh = FreshProcess()
            ex.fresh = fresh
            try:
                ex.explore()
            finally:
                fresh.close()
        o.notes["operations"] = len(ops)
        o.notes["discovery_operations"] = len([op for op in ops if op.kind not in ("call", "invalid")])
    finally:
        np.seterr(**old)
        for f in os.listdir(tmpdir):
            os.unlink(os.path.join(tmpdir, f))
        os.rmdir(tmpdir)
    return o


def post(results, tier):
    # states are discovered by every shard of a search: count them once per seed world (largest shard count)
    per = {}
    for r in results:
        sd = r.get("cfg", {}).get("seed", id(r))
        per[sd] = max(per.get(sd, 0), r.get("notes", {}).get("bfs_states", 0))
    st = sum(per.values()) if per else sum(r.get("notes", {}).get("bfs_states", 0) for r in results)
    # every shard executes the state-discovering operations: count each (state, operation) transition once
    ed = sum(r.get("notes", {}).get("bfs_edges", 0) for r in results)
    nsh = 5 if tier == "quick" else 2
    for sd, nst in per.items():
        nd = max([r.get("notes", {}).get("discovery_operations", 0) for r in results if r.get("cfg", {}).get("seed") == sd] + [0])
        ed -= (nsh - 1) * nst * nd
    closed = all(r.get("notes", {}).get("closure_reached", 0) for r in results)
    return {"coverage": {"states": st, "transitions": ed, "closure_reached": bool(closed),
                         "max_history_depth": max([r.get("notes", {}).get("max_depth", 0) for r in results] + [0]),
                         "operations_in_alphabet": max([r.get("notes", {}).get("operations", 0) for r in results] + [0]),
                         "seed_worlds": len(per) or len(results), "processes_per_search": 5 if tier == "quick" else 2, "exhaustive": bool(closed)}}
