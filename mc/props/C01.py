"""C01  overlap exact, unit diagonal, asymmetric = off-diagonal block of the union (engine E1)."""
import itertools

import numpy as np

from .. import alphabet as al
from .. import pairspace as ps
from ..core import Obs, gb, gshell
from ..ref import oneel
from ..ref.shells import RefShell, nbasis

ID = "C01"
ENGINE = "E1 product-space explorer"
RULE = ("complete Cartesian product of (l_a,l_b) in 0..5 x coordinate-type pair x geometry class x shape pattern "
        "(K, M, exponent pattern per shell); each configuration observed through overlap_integral([a,b]), "
        "([b,a]), overlap_integral_asymmetric in two splittings and Overlap.construct_array_contraction; plus "
        "whole bases of 1, 3 and 4 shells over the shape ladder for every type pattern. A digest is non-trivial "
        "when the reference matrix is not identically zero; distinct = distinct rounded reference matrices.")
ASSUMPTIONS = ["tolerance: 1e-8 absolute as stated by the property"]
TOL = 1e-8
CHUNK = 6


def bounds(tier):
    return ps.bounds(tier, 5)


def configs(tier, seed):
    return ps.configs(tier, 5)


build = ps.build


def evaluate(cfg):
    gb()
    from gbasis.integrals.overlap import Overlap, overlap_integral
    from gbasis.integrals.overlap_asymm import overlap_integral_asymmetric

    o = Obs(cfg)
    shells = build(cfg)
    ref = oneel.matrix(shells, shells, oneel.OVERLAP)
    g = [gshell(s) for s in shells]
    S = overlap_integral(g)
    o.call()
    o.cmp("overlap_integral", S, ref, TOL)
    o.cmp("unit diagonal", np.diag(S), np.ones(len(ref)), TOL)
    if cfg["kind"] == "pair":
        a, b = shells
        na = a.nfunc
        perm = list(range(na, len(ref))) + list(range(na))
        S2 = overlap_integral([g[1], g[0]])
        o.call()
        o.cmp("overlap_integral reversed order", S2, ref[np.ix_(perm, perm)], TOL)
        As = overlap_integral_asymmetric([g[0]], [g[1]])
        o.call()
        o.cmp("asymmetric [a],[b]", As, ref[:na, na:], TOL)
        o.cmp("asymmetric == block of union", As, S[:na, na:], 1e-12)
        As2 = overlap_integral_asymmetric([g[0], g[1]], [g[1]])
        o.call()
        o.cmp("asymmetric [a,b],[b]", As2, ref[:, na:], TOL)
        As3 = overlap_integral_asymmetric([g[1]], [g[0], g[1]])
        o.call()
        o.cmp("asymmetric [b],[a,b]", As3, ref[na:, :], TOL)
        if cfg.get("alias"):
            # the same shell OBJECT listed twice (a legal, linearly dependent basis): blocks are addressed by position
            idx = list(range(len(ref))) + list(range(na))
            S3 = overlap_integral([g[0], g[1], g[0]])
            o.call()
            o.cmp("overlap_integral([a, b, a]) with a the same object", S3, ref[np.ix_(idx, idx)], TOL, key="repeated-shell-object")
            As4 = overlap_integral_asymmetric([g[0], g[1]], [g[0]])
            o.call()
            o.cmp("asymmetric [a,b],[a] with a the same object", As4, ref[:, :na], TOL, key="repeated-shell-object")
        blk = Overlap.construct_array_contraction(g[0], g[1])
        o.call()
        blk = blk * g[0].norm_cont[:, :, None, None] * g[1].norm_cont[None, None, :, :]
        o.cmp("construct_array_contraction(a,b)", blk, oneel.block(a, b, oneel.OVERLAP, cart4=True), TOL)
    elif cfg["kind"] == "basis":
        k = cfg["n"] // 2
        As = overlap_integral_asymmetric(g[:k], g[k:])
        o.call()
        nk = nbasis(shells[:k])
        o.cmp("asymmetric split basis", As, ref[:nk, nk:], TOL)
        o.cmp("asymmetric == block of union", As, S[:nk, nk:], 1e-12)
    return o
