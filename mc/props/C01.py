"""C01  overlap exact, unit diagonal, asymmetric = off-diagonal block of the union (engine E1)."""
import itertools

import numpy as np

from .. import alphabet as al
from ..core import Obs, gb, gshell
from ..ref import oneel
from ..ref.shells import RefShell, nbasis

ID = "C01"
ENGINE = "E1 product-space explorer"
RULE = ("complete Cartesian product of (l_a,l_b) in 0..5 x coordinate-type pair x geometry class x shape pattern "
        "(K, M, exponent pattern per shell); each configuration observed through overlap_integral([a,b]), "
        "([b,a]), overlap_integral_asymmetric in two splittings and Overlap.construct_array_contraction; plus "
        "whole bases of 1, 3 and 4 shells over the shape ladder for every type pattern. A digest is non-trivial "
        "when the reference matrix is not identically zero; distinct = distinct rounded reference matrices.")
ASSUMPTIONS = ["tolerance: 1e-8 absolute as stated by the property"]
TOL = 1e-8
CHUNK = 6


def shape_patterns(tier):
    """(Ka, Ma, pat_a, Kb, Mb, pat_b)"""
    if tier == "quick":
        return [(1, 1, 0, 1, 1, 2), (1, 1, 2, 1, 1, 1), (2, 2, 0, 1, 1, 1), (1, 2, 1, 2, 1, 1), (2, 1, 1, 2, 2, 0)]
    out = []
    for Ka, Kb in itertools.product([1, 2, 3, 4], repeat=2):
        for pa in range(len(al.exp_patterns(0, Ka))):
            for pb in range(len(al.exp_patterns(0, Kb))):
                # M pattern cycles so that every (Ma, Mb) in 1..3 x 1..3 occurs for every (Ka, Kb) class
                out.append((Ka, 1 + (pa + Kb) % 3, pa, Kb, 1 + (pb + Ka + pa) % 3, pb))
    return out


def bounds(tier):
    return {"l_pairs": 36, "type_pairs": 4, "geometries": 3 if tier == "quick" else 6,
            "shape_patterns": len(shape_patterns(tier)), "K": "1..2" if tier == "quick" else "1..4",
            "M": "1..2" if tier == "quick" else "1..3", "whole_bases": "1,3,4 shells, all type patterns"}


def configs(tier, seed):
    geoms = al.GEOMS[:3] if tier == "quick" else al.GEOMS
    out = []
    for la in range(6):
        for lb in range(6):
            for ta, tb in al.type_patterns(2):
                for g in geoms:
                    for sp in shape_patterns(tier):
                        out.append({"kind": "pair", "la": la, "lb": lb, "ta": ta, "tb": tb, "geom": g, "shape": sp})
    # single shells: unit diagonal for every l, K, M, type
    for l in range(6):
        for K in ([1, 2] if tier == "quick" else [1, 2, 3, 4]):
            for M in ([1, 2] if tier == "quick" else [1, 2, 3]):
                for t in ("cartesian", "spherical"):
                    for pat in range(len(al.exp_patterns(l, K, tier))):
                        out.append({"kind": "single", "l": l, "K": K, "M": M, "t": t, "pat": pat})
    # whole bases over the shape ladder
    for n in (3, 4):
        starts = [0, 2] if tier == "quick" else list(range(0, 5))
        for st in starts:
            for tp in al.type_patterns(n):
                out.append({"kind": "basis", "n": n, "start": st, "types": list(tp)})
    return out


def build(cfg):
    tier = "thorough"
    if cfg["kind"] == "pair":
        Ka, Ma, pa, Kb, Mb, pb = cfg["shape"]
        A = al.generic_center("A")
        B = al.add(A, al.displacement(cfg["geom"]))
        a = al.shell(cfg["la"], A, Ka, Ma, cfg["ta"], pat=pa, rot=0, tier=tier)
        b = al.shell(cfg["lb"], B, Kb, Mb, cfg["tb"], pat=pb, rot=1, tier=tier)
        return [a, b]
    if cfg["kind"] == "single":
        return [al.shell(cfg["l"], al.generic_center("A"), cfg["K"], cfg["M"], cfg["t"], pat=cfg["pat"], tier=tier)]
    cs = al.molecule_centers(cfg["n"])
    return [al.ladder_shell(cfg["start"] + i, cs[i], cfg["types"][i]) for i in range(cfg["n"])]


def evaluate(cfg):
    gb()
    from gbasis.integrals.overlap import Overlap, overlap_integral
    from gbasis.integrals.overlap_asymm import overlap_integral_asymmetric

    o = Obs(cfg)
    shells = build(cfg)
    ref = oneel.matrix(shells, shells, oneel.OVERLAP)
    g = [gshell(s) for s in shells]
    S = overlap_integral(g)
    o.call()
    o.cmp("overlap_integral", S, ref, TOL)
    o.cmp("unit diagonal", np.diag(S), np.ones(len(ref)), TOL)
    if cfg["kind"] == "pair":
        a, b = shells
        na = a.nfunc
        perm = list(range(na, len(ref))) + list(range(na))
        S2 = overlap_integral([g[1], g[0]])
        o.call()
        o.cmp("overlap_integral reversed order", S2, ref[np.ix_(perm, perm)], TOL)
        As = overlap_integral_asymmetric([g[0]], [g[1]])
        o.call()
        o.cmp("asymmetric [a],[b]", As, ref[:na, na:], TOL)
        o.cmp("asymmetric == block of union", As, S[:na, na:], 1e-12)
        As2 = overlap_integral_asymmetric([g[0], g[1]], [g[1]])
        o.call()
        o.cmp("asymmetric [a,b],[b]", As2, ref[:, na:], TOL)
        As3 = overlap_integral_asymmetric([g[1]], [g[0], g[1]])
        o.call()
        o.cmp("asymmetric [b],[a,b]", As3, ref[na:, :], TOL)
        blk = Overlap.construct_array_contraction(g[0], g[1])
        o.call()
        blk = blk * g[0].norm_cont[:, :, None, None] * g[1].norm_cont[None, None, :, :]
        o.cmp("construct_array_contraction(a,b)", blk, oneel.block(a, b, oneel.OVERLAP, cart4=True), TOL)
    elif cfg["kind"] == "basis":
        k = cfg["n"] // 2
        As = overlap_integral_asymmetric(g[:k], g[k:])
        o.call()
        nk = nbasis(shells[:k])
        o.cmp("asymmetric split basis", As, ref[:nk, nk:], TOL)
        o.cmp("asymmetric == block of union", As, S[:nk, nk:], 1e-12)
    return o
