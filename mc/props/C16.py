"""C16  analytic integrals and pointwise evaluations describe the same functions (E1, differential oracle)."""
import numpy as np

from .. import alphabet as al
from ..core import Obs, gb, gshell, hvec
from ..ref.shells import RefShell, nbasis

ID = "C16"
ENGINE = "E1 product-space explorer"
RULE = ("every 1- and 2-shell basis over l in 0..4 x coordinate type x M in {1,2} (exponents 0.3..3, centres within 1 "
        "bohr of the origin) and 3-shell bases over the shape ladder with all 8 type patterns; the library's "
        "evaluate_basis / evaluate_deriv_basis / evaluate_density / evaluate_posdef_kinetic_energy_density are summed "
        "on a uniform grid (h=0.2 on [-9,9]^3, 753571 points, trapezoid rule) and compared with overlap_integral, "
        "moment_integral (10 order triples of total order <= 2), kinetic_energy_integral, tr(gamma S), tr(gamma T) - "
        "the last two also for linearly transformed orbitals with a non-diagonal density matrix (every second basis). "
        "Both sides are library outputs; no reference model is involved. Non-trivial = analytic array not identically "
        "zero.")
ASSUMPTIONS = ["uniform-grid trapezoid rule converges geometrically for these exponents (checked: the h=0.25 error of one "
               "configuration must exceed the h=0.2 error or both be below 1e-12)",
               "tolerance 1e-9 absolute for overlap (unit-normalised functions), 1e-9 * natural scale otherwise"]
TOL = 1e-9
CHUNK = 1
ORD2 = [(0, 0, 0), (1, 0, 0), (0, 1, 0), (0, 0, 1), (2, 0, 0), (0, 2, 0), (0, 0, 2), (1, 1, 0), (1, 0, 1), (0, 1, 1)]
_GRID = {}


def grid(h, L=9.0):
    key = (h, L)
    if key not in _GRID:
        n = int(round(2 * L / h)) + 1
        ax = np.linspace(-L, L, n)
        _GRID[key] = (ax, n)
    return _GRID[key]


def bounds(tier):
    return {"grid": "h=0.2, [-9,9]^3, 91^3 points", "bases": "1-shell: l 0..4 x type x M; 2-shell: " +
            ("25 (l_a,l_b) pairs, type/M patterns cycling" if tier == "quick" else "25 pairs x 4 type pairs x 2 M patterns") +
            "; 3-shell ladder x 8 type patterns" + ("" if tier != "quick" else " (2 starts)")}


def configs(tier, seed):
    out = []
    for l in range(5):
        for t in ("cartesian", "spherical"):
            for M in (1, 2):
                if tier == "quick" and (l + M + (t == "spherical")) % 2:
                    continue
                out.append({"kind": "one", "l": [l], "types": [t], "M": [M]})
    tps = al.type_patterns(2)
    for la in range(5):
        for lb in range(5):
            for ti, tp in enumerate(tps):
                for Ms in ((1, 2), (2, 1)):
                    if tier == "quick" and (ti != (la + 2 * lb) % 4 or Ms != ((1, 2) if (la + lb) % 2 else (2, 1))
                                            or (la + lb) % 2 == 1 and la < lb):
                        continue
                    out.append({"kind": "two", "l": [la, lb], "types": list(tp), "M": list(Ms)})
    for st in ([0, 2] if tier == "quick" else [0, 1, 2, 3]):
        for tp in al.type_patterns(3):
            if tier == "quick" and sum(t == "spherical" for t in tp) not in (1, 3) and st == 2:
                continue
            ls = [(st + i) % 5 for i in range(3)]
            out.append({"kind": "three", "l": ls, "types": list(tp), "M": [1 + (st + i) % 2 for i in range(3)]})
    out.append({"kind": "convergence", "l": [2, 3], "types": ["spherical", "cartesian"], "M": [1, 1]})
    # a shell whose norm_cont was set by the caller (legal: it is a plain attribute): both halves must use it
    out.append({"kind": "two", "l": [1, 2], "types": ["cartesian", "spherical"], "M": [2, 1], "normscale": 1.3})
    # one evaluation call over the whole grid (753571 points x 35 functions, 2.6e7 values) against the same grid in slabs
    out.append({"kind": "bigcall", "l": [0, 1, 2, 3, 4], "types": ["cartesian", "spherical", "cartesian", "spherical", "cartesian"],
                "M": [1, 1, 1, 1, 1]})
    return out


def build(cfg):
    n = len(cfg["l"])
    cs = [tuple(hvec("grid-c%d" % i, 3, -0.55, 0.55)) for i in range(n)]
    shells = []
    for i in range(n):
        M = cfg["M"][i]
        K = 2 if (i + cfg["l"][i]) % 2 == 0 else 1
        exps = [(0.3, 0.9, 3.0)[(i + k + cfg["l"][i]) % 3] * (1 + 0.15 * k * (-1 if (i + k + cfg["l"][i]) % 3 == 2 else 1))
                for k in range(K)]  # stays inside 0.3..3
        shells.append(RefShell(cfg["l"][i], cs[i], exps, al.coeffs(K, M, rot=i), cfg["types"][i]))
    return shells


def integrate(g, n, gam, h, gam2=None, trf=None):
    from gbasis.evals.density import (evaluate_density, evaluate_density_using_evaluated_orbs,
                                      evaluate_posdef_kinetic_energy_density)
    from gbasis.evals.eval import evaluate_basis
    from gbasis.evals.eval_deriv import evaluate_deriv_basis

    ax, N = grid(h)
    w1 = np.full(N, h)
    w1[0] = w1[-1] = h / 2
    S = np.zeros((n, n))
    Mo = np.zeros((n, n, len(ORD2)))
    T = np.zeros((n, n))
    rho = 0.0
    rho2 = 0.0
    tp = 0.0
    rhoT = 0.0
    tpT = 0.0
    calls = 0
    X, Y = np.meshgrid(ax, ax, indexing="ij")
    WX, WY = np.meshgrid(w1, w1, indexing="ij")
    step = 6
    for k0 in range(0, N, step):
        zs = ax[k0:k0 + step]
        pts = np.stack([np.repeat(X.ravel(), len(zs)), np.repeat(Y.ravel(), len(zs)), np.tile(zs, X.size)], axis=1)
        w = np.repeat((WX * WY).ravel(), len(zs)) * np.tile(w1[k0:k0 + step], X.size)
        P = evaluate_basis(g, pts)
        Pw = P * w
        S += Pw @ P.T
        for e, (i, j, k) in enumerate(ORD2):
            f = pts[:, 0] ** i * pts[:, 1] ** j * pts[:, 2] ** k
            Mo[:, :, e] += (Pw * f) @ P.T
        for d in range(3):
            o = np.zeros(3, dtype=int)
            o[d] = 1
            D = evaluate_deriv_basis(g, pts, o)
            T += 0.5 * (D * w) @ D.T
        rho += float(np.sum(evaluate_density(gam, g, pts) * w))
        if gam2 is not None:
            rho2 += float(np.sum(evaluate_density_using_evaluated_orbs(gam2, P) * w))
        tp += float(np.sum(evaluate_posdef_kinetic_energy_density(gam, g, pts) * w))
        calls += 6
        if trf is not None:  # the same two fields for transformed orbitals with a non-diagonal density matrix
            gamT, Tm = trf
            rhoT += float(np.sum(evaluate_density(gamT, g, pts, transform=Tm) * w))
            tpT += float(np.sum(evaluate_posdef_kinetic_energy_density(gamT, g, pts, transform=Tm) * w))
            calls += 2
    if trf is not None:
        return S, Mo, T, rho, tp, calls, rho2, rhoT, tpT
    return S, Mo, T, rho, tp, calls, rho2


def bigcall(o, g, n, gam):
    """evaluate_basis / evaluate_density called ONCE for the whole grid must give what slab-wise calls give, and the
    density must integrate to tr(gamma S)."""
    from gbasis.evals.density import evaluate_density
    from gbasis.evals.eval import evaluate_basis
    from gbasis.integrals.overlap import overlap_integral

    h = 0.2
    ax, N = grid(h)
    w1 = np.full(N, h)
    w1[0] = w1[-1] = h / 2
    X, Y, Z = np.meshgrid(ax, ax, ax, indexing="ij")
    pts = np.stack([X.ravel(), Y.ravel(), Z.ravel()], axis=1)
    w = (w1[:, None, None] * w1[None, :, None] * w1[None, None, :]).ravel()
    rho = evaluate_density(gam, g, pts)
    P = evaluate_basis(g, pts)
    o.call(2)
    o.notes["bigcall_values"] = int(P.size)
    step = 50000
    rs = np.concatenate([evaluate_density(gam, g, pts[i:i + step]) for i in range(0, len(pts), step)])
    Ps = np.concatenate([evaluate_basis(g, pts[i:i + step]) for i in range(0, len(pts), step)], axis=1)
    o.call(2 * (len(pts) // step + 1))
    o.cmp("evaluate_density: one call for %d points == slab-wise calls" % len(pts), rho, rs, 1e-12, float(np.max(np.abs(rs))),
          key="bigcall-density")
    o.cmp("evaluate_basis: one call == slab-wise calls", P, Ps, 1e-12, float(np.max(np.abs(Ps))), key="bigcall-basis")
    Sa = overlap_integral(g)
    o.call()
    o.cmp("grid density (single call) == tr(gamma S)", np.array(float(np.sum(rho * w))), np.array(np.sum(gam * Sa)), TOL,
          float(np.sum(np.abs(gam) * np.abs(Sa))), key="grid-density-bigcall")
    return o


def evaluate(cfg):
    gb()
    from gbasis.integrals.kinetic_energy import kinetic_energy_integral
    from gbasis.integrals.moment import moment_integral
    from gbasis.integrals.overlap import overlap_integral

    o = Obs(cfg)
    shells = build(cfg)
    g = [gshell(s) for s in shells]
    if cfg.get("normscale"):
        g[0].norm_cont = g[0].norm_cont * cfg["normscale"]
    n = nbasis(shells)
    X = np.array([hvec("gridX%d" % r, n, -1, 1) for r in range(n)])
    gam = X @ X.T
    if cfg["kind"] == "bigcall":
        return bigcall(o, g, n, gam)
    Sa = overlap_integral(g)
    Ta = kinetic_energy_integral(g)
    Ma = moment_integral(g, np.zeros(3), np.array(ORD2))
    o.call(3)
    gam2 = (X + X.T) / 2  # symmetric, indefinite (difference / spin density)
    trf = None
    if sum(cfg["l"]) % 2 == 0 and n > 1:
        k = max(2, n - 1)
        Tm = np.array([hvec("gridT%d" % r, n, -1, 1) for r in range(k)])
        Y = np.array([hvec("gridY%d" % r, k, -1, 1) for r in range(k)])
        trf = (Y @ Y.T, Tm)
    res = integrate(g, n, gam, 0.2, gam2, trf)
    S, Mo, T, rho, tp, calls, rho2 = res[:7]
    o.call(calls)
    td = np.sqrt(np.abs(np.diag(Ta)))
    tsc = np.outer(td, td)
    # moment scale: sqrt(<a|m^2|a><b|m^2|b>)^(1/2) approximated by sqrt of the numerically integrated m^2 diagonals
    o.cmp("grid overlap == overlap_integral", S, Sa, TOL, 1.0, key="grid-overlap")
    msc = np.maximum(1.0, np.max(np.abs(Ma), axis=(0, 1)))[None, None, :]
    o.cmp("grid moments == moment_integral", Mo, Ma, TOL, msc, key="grid-moment")
    o.cmp("grid kinetic == kinetic_energy_integral", T, Ta, TOL, tsc, key="grid-kinetic")
    o.cmp("grid density == tr(gamma S)", np.array(rho), np.array(np.sum(gam * Sa)), TOL,
          float(np.sum(np.abs(gam) * np.abs(Sa))), key="grid-density")
    o.cmp("grid density of an indefinite symmetric matrix (evaluate_density_using_evaluated_orbs) == tr(gamma S)",
          np.array(rho2), np.array(np.sum(gam2 * Sa)), TOL, float(np.sum(np.abs(gam2) * np.abs(Sa))), key="grid-density-indefinite")
    o.cmp("grid posdef KED == tr(gamma T)", np.array(tp), np.array(np.sum(gam * Ta)), TOL,
          float(np.sum(np.abs(gam) * tsc)), key="grid-ked")
    if trf is not None:
        gamT, Tm = trf
        ST = overlap_integral(g, transform=Tm)
        TT = kinetic_energy_integral(g, transform=Tm)
        o.call(2)
        aT = np.abs(Tm)
        o.cmp("grid density of transformed orbitals == tr(gamma S_T)", np.array(res[7]), np.array(np.sum(gamT * ST)), TOL,
              float(np.sum(np.abs(gamT) * (aT @ np.abs(Sa) @ aT.T))), key="grid-density-transformed")
        o.cmp("grid posdef KED of transformed orbitals == tr(gamma T_T)", np.array(res[8]), np.array(np.sum(gamT * TT)), TOL,
              float(np.sum(np.abs(gamT) * (aT @ tsc @ aT.T))), key="grid-ked-transformed")
    if cfg["kind"] == "convergence":
        S2, _, T2, _, _, c2, _ = integrate(g, n, gam, 0.25)
        o.call(c2)
        e1 = float(np.max(np.abs(S - Sa)))
        e2 = float(np.max(np.abs(S2 - Sa)))
        o.notes["max_err_h020"] = e1
        o.notes["max_err_h025"] = e2
        o.check("coarser grid is less accurate (geometric convergence)", e2 >= e1 or max(e1, e2) < 1e-12,
                detail={"h0.2": e1, "h0.25": e2}, key="grid-convergence")
    return o


def cost(cfg):
    return sum((l + 1) ** 2 * m for l, m in zip(cfg["l"], cfg["M"])) * (2 if cfg["kind"] == "convergence" else 1)
