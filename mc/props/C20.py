"""C20  overlap screening follows the documented cutoff and is conservative (engine E1)."""
import itertools
import math

import mpmath
import numpy as np

from .. import alphabet as al
from ..core import Obs, gb, gshell, hvec
from ..ref.shells import RefShell, contraction_norms, nbasis, shell_slices

ID = "C20"
ENGINE = "E1 product-space explorer"
RULE = ("product of bases of 2-5 shells (l 0..3, K 1..4 with exponents from {0.05, 0.7, 12, 500} in several orders so "
        "the smallest exponent is not always first, generalized, coordinate-type patterns) x geometry: consecutive "
        "centres at distance {0, 30 bohr, 0.99 x cutoff, 1.01 x cutoff of that pair at each reference tolerance}; on "
        "every geometry ALL tolerances {1e-16, 1e-12, 1e-8, 1e-4, 0.1, 0.5, None} are applied with and without a "
        "transformation. Oracle: cutoff from the smallest exponents in 34-digit arithmetic; kept blocks equal the "
        "unscreened blocks, removed blocks are exactly 0, None == default call, removed sets nested in the tolerance, "
        "removed s-type elements below tol x sum|d~| x sum|d~|. distinct = distinct (kept/removed) block patterns x "
        "reference matrices.")
ASSUMPTIONS = ["a pair whose distance is within 1e-9 relative of its cutoff is not asserted either way"]
CHUNK = 8
TOLS = [1e-16, 1e-12, 1e-8, 1e-4, 0.1, 0.5]
EXPSETS = [(0.05,), (500.0,), (12.0, 0.7), (500.0, 0.05), (0.7, 12.0, 0.05), (500.0, 12.0, 0.7, 0.05), (12.0, 500.0),
           (0.7, 500.0, 12.0)]
# (l, expset index, M)
SHELLSETS = {
    2: [[(0, 0, 1), (0, 3, 2)], [(1, 2, 1), (0, 1, 1)], [(2, 4, 2), (3, 6, 1)], [(0, 5, 1), (1, 0, 2)],
        [(0, 2, 1), (0, 2, 2)], [(3, 3, 1), (2, 5, 1)],
        # 1/alpha_a + 1/alpha_b is dominated by the more diffuse shell: to feel the smallest exponent of a shell whose
        # smallest exponent is not listed last, its partner must be tight (or unsorted too)
        [(0, 6, 1), (0, 1, 1)], [(1, 6, 2), (2, 6, 1)], [(0, 7, 1), (1, 1, 1)]],
    3: [[(0, 0, 1), (1, 2, 2), (2, 1, 1)], [(0, 3, 1), (0, 4, 2), (3, 6, 1)], [(0, 6, 1), (0, 1, 1), (1, 7, 2)],
        # all shells with the same smallest exponent (a valence-only basis): every pair has the same cutoff
        [(0, 2, 1), (1, 7, 1), (0, 2, 2)]],
    4: [[(0, 0, 1), (1, 2, 1), (0, 5, 2), (2, 6, 1)], [(1, 4, 1), (0, 3, 2), (0, 0, 1), (2, 5, 1)]],
    5: [[(0, 4, 1), (1, 0, 1), (0, 1, 2), (2, 2, 1), (0, 3, 1)]],
}


SHAPES6 = [(0, 0, 1), (0, 3, 2), (1, 2, 1), (2, 4, 2), (3, 6, 1), (0, 7, 1), (0, 1, 1)]
THOROUGH_PAIRS = [[a, b] for a in SHAPES6 for b in SHAPES6]


def shellsets(tier):
    if tier == "quick":
        return SHELLSETS
    d = {k: list(v) for k, v in SHELLSETS.items()}
    d[2] = d[2] + [p_ for p_ in THOROUGH_PAIRS if p_ not in d[2]]
    return d


def cutoff(sa, sb, tol):
    a = mpmath.mpf(min(sa.exps))
    b = mpmath.mpf(min(sb.exps))
    return float(mpmath.sqrt(-(a + b) / (a * b) * mpmath.log(mpmath.mpf(tol))))


def bounds(tier):
    return {"shell_counts": "2..5", "shell_sets": {k: len(v) for k, v in shellsets(tier).items()},
            "geometries_per_set": 2 + 2 * len(TOLS), "layouts": "chain (first shell at one end); star (first shell in the middle) for 3+ shells", "tolerances": TOLS + [None], "transform": [False, True], "transform_entry_scale": [1, 40, 1e-3],
            "type_patterns": "all 2^n for n<=3, 4 patterns above" if tier != "quick" else "2 per set"}


def configs(tier, seed):
    out = []
    geoms = [("zero", None), ("far", None)] + [(f, t) for t in TOLS for f in (0.99, 1.01)]
    for n, sets in shellsets(tier).items():
        for si, _ in enumerate(sets):
            tps = al.type_patterns(n)
            if n > 3:
                tps = [tps[0], tps[-1], tps[5], tps[10]]
            if tier == "quick":
                tps = [tps[(si + 1) % len(tps)], tps[(si + 2) % len(tps)]]
            for tp in tps:
                for (f, t) in geoms:
                    out.append({"n": n, "set": si, "types": list(tp), "geom": [f, t]})
                    if n >= 3 and t is not None:
                        # star layout: the FIRST shell in the middle, the others around it at f x their cutoff with
                        # it, in alternating directions (so the outer shells are beyond their mutual cutoffs)
                        out.append({"n": n, "set": si, "types": list(tp), "geom": [f, t], "layout": "star"})
    return out


def build(cfg):
    spec = shellsets("thorough")[cfg["n"]][cfg["set"]]
    f, t = cfg["geom"]
    d = np.array(hvec("scr-dir", 3, 0.3, 1.0)) * np.array([1, -1, 1])
    d /= np.linalg.norm(d)
    perp = np.cross(d, [0.0, 0.0, 1.0])
    perp /= np.linalg.norm(perp)
    pos = np.array(hvec("scr-o", 3, -0.5, 0.5))
    shells = []
    for i, (l, ei, M) in enumerate(spec):
        e = EXPSETS[ei]
        # atom-index labels: none / all equal (bases from separate make_contractions calls joined) / alternating
        ic = [None, 0, i % 2][(cfg["n"] + cfg["set"] + len(cfg["types"][0])) % 3]
        co = np.array(al.coeffs(len(e), M, rot=i))
        if M > 1 and len(e) > 1:
            # generalized contractions as in correlation-consistent sets: the most diffuse primitive does not
            # contribute to the first column
            co[int(np.argmin(e)), 0] = 0.0
        sh = RefShell(l, pos, e, co, cfg["types"][i], icenter=ic)
        if i > 0:
            prev = shells[-1]
            if f == "zero":
                step = 0.0
            elif f == "far":
                step = 30.0
            else:
                step = f * cutoff(prev, sh, t)
            # zig-zag: alternate a small perpendicular component (kept inside the step length)
            w = 0.3 if i % 2 else -0.3
            v = d * math.sqrt(1 - w * w) + perp * w
            pos = np.array(prev.center) + step * v
            if cfg.get("layout") == "star":
                pos = np.array(shells[0].center) + (f * cutoff(shells[0], sh, t)) * v * (1 if i % 2 else -1)
            sh = sh.with_(center=tuple(pos))
        shells.append(sh)
    return shells


def evaluate(cfg):
    gb()
    from gbasis.integrals.overlap import overlap_integral

    o = Obs(cfg)
    shells = build(cfg)
    g = [gshell(s) for s in shells]
    n = nbasis(shells)
    sl = shell_slices(shells)
    S0 = overlap_integral(g)
    o.call()
    Snone = overlap_integral(g, tol_screen=None)
    o.call()
    o.same("tol_screen=None is the default call", Snone, S0, key="none-is-default")
    # transformation magnitude class: entries within [-1, 1], up to 40, down to 1e-3 (the tolerance is a property of
    # the primitive shell pairs, whatever combination of them is formed afterwards)
    import json as _json
    import zlib as _zlib
    tscale = (1.0, 40.0, 1e-3)[_zlib.crc32(_json.dumps(cfg, sort_keys=True).encode()) % 3]
    o.notes["transform_scale_%g" % tscale] = 1
    T = tscale * np.array([hvec("scrT%d" % r, n, -1, 1) for r in range(max(1, n - 1))])
    ST0 = overlap_integral(g, transform=T)
    o.call()
    o.cmp("unscreened transformed == T S T^t", ST0, T @ S0 @ T.T, 1e-12, np.abs(T) @ np.abs(S0) @ np.abs(T).T,
          key="transform")
    # normalised absolute coefficient sums per (shell, segment)
    dsum = []
    for sh in shells:
        N = contraction_norms(sh)
        c = np.abs(np.array(sh.coeffs))
        dsum.append([float(N[m]) * float(c[:, m].sum()) for m in range(sh.M)])
    removed_prev = None
    for tol in TOLS:  # ascending tolerance
        S = overlap_integral(g, tol_screen=tol)
        o.call()
        pattern = []
        model = S0.copy()
        undecided = np.zeros_like(S0, dtype=bool)
        removed = set()
        for i, j in itertools.product(range(len(shells)), repeat=2):
            dist = float(np.linalg.norm(np.array(shells[i].center) - np.array(shells[j].center)))
            cut = cutoff(shells[i], shells[j], tol)
            if abs(dist - cut) <= 1e-9 * cut:
                undecided[sl[i], sl[j]] = True
                pattern.append("?")
                continue
            if dist > cut:
                model[sl[i], sl[j]] = 0.0
                removed.add((i, j))
                pattern.append("0")
                # conservativeness for s-type elements of the unscreened matrix
                if shells[i].l == 0 and shells[j].l == 0:
                    blk = S0[sl[i], sl[j]]
                    bnd = tol * np.outer(dsum[i], dsum[j])
                    o.check("removed s-type element below tol*sum|d|*sum|d|", bool(np.all(np.abs(blk) < bnd)),
                            detail={"max": float(np.abs(blk).max()), "bound": float(bnd.min()), "tol": tol},
                            key="conservative")
            else:
                pattern.append("1")
        got = np.where(undecided, model, S)
        zero_mask = (model == 0.0) & ~undecided & _blockmask(removed, sl, n)
        o.check("removed blocks exactly zero tol=%g" % tol, bool(np.all(got[zero_mask] == 0.0)),
                detail="nonzero in removed block", key="removed-not-zero", token=("pat", tol, "".join(pattern)))
        o.cmp("kept blocks equal unscreened tol=%g" % tol, got, model, 1e-14, 1.0, key="screen-pattern")
        ST = overlap_integral(g, tol_screen=tol, transform=T)
        o.call()
        if not undecided.any():
            o.cmp("screened transformed == T S_screened T^t tol=%g" % tol, ST, T @ model @ T.T, 1e-12,
                  np.abs(T) @ np.abs(S0) @ np.abs(T).T, key="screen-transform")
        # monotonicity: sets are processed with increasing tolerance, removed set must grow
        lib_removed = {(i, j) for i, j in itertools.product(range(len(shells)), repeat=2)
                       if np.all(S[sl[i], sl[j]] == 0.0) and np.any(S0[sl[i], sl[j]] != 0.0)}
        if removed_prev is not None:
            o.check("lowering the tolerance never removes more blocks", removed_prev <= lib_removed,
                    detail={"lower_tol_removed": sorted(removed_prev), "higher_tol_removed": sorted(lib_removed)},
                    key="monotone")
        removed_prev = lib_removed
    return o


def _blockmask(removed, sl, n):
    m = np.zeros((n, n), dtype=bool)
    for (i, j) in removed:
        m[sl[i], sl[j]] = True
    return m
