"""C17  positivity and Schwarz bounds of the integral arrays (engine E1, invariant on every state)."""
import itertools

import numpy as np

from .. import alphabet as al
from ..core import Obs, gb, gshell, hvec
from ..ref.shells import RefShell, nbasis

ID = "C17"
ENGINE = "E1 product-space explorer"
RULE = ("product of bases of 1-5 shells (l 0..3, generalized, coordinate-type patterns) x centre pattern {all "
        "coincident, neighbours 0.05 bohr apart (nearly linearly dependent), 1.4 bohr, 6 bohr} x exponent pattern {all "
        "equal, ratio 1.02, spread 0.05..50}; invariants evaluated on every state: S symmetric PSD with |S_ij|<=1, T "
        "PSD, V of positive charges (6 position classes) NSD, and for the ERI sub-family (exponents 0.1..10): pair "
        "matrix PSD, (ab|ab)>=0, (ab|cd)^2 <= (ab|ab)(cd|cd). distinct = distinct rounded spectra.")
ASSUMPTIONS = ["inequalities up to rounding: 1e-9 of the largest eigenvalue / element (1e-6 for the repulsion array), as "
               "stated by the property", "eigenvalues from LAPACK eigh on the symmetrised matrix"]
CHUNK = 1
# (l, K, M)
SETS = {1: [[(0, 1, 1)], [(1, 2, 2)], [(2, 1, 1)], [(3, 2, 1)]],
        2: [[(0, 2, 1), (0, 1, 2)], [(1, 1, 1), (1, 2, 1)], [(2, 1, 2), (0, 3, 1)], [(3, 1, 1), (1, 1, 2)]],
        3: [[(0, 1, 1), (1, 1, 1), (2, 1, 1)], [(0, 2, 2), (0, 1, 1), (1, 2, 1)]],
        4: [[(0, 1, 1), (1, 2, 1), (2, 1, 2), (0, 2, 1)], [(1, 1, 1), (3, 1, 1), (0, 1, 2), (2, 2, 1)]],
        5: [[(0, 2, 1), (1, 1, 1), (2, 1, 1), (3, 1, 1), (0, 1, 2)]]}
CENTRES = ["coincident", "near", "bond", "apart"]
EXPPAT = ["equal", "near-equal", "spread"]


def bounds(tier):
    return {"shell_counts": "1..5", "sets": {k: len(v) for k, v in SETS.items()}, "centre_patterns": 4,
            "exponent_patterns": 3, "type_patterns": "all 2^n (n<=3), 4 above",
            "eri": "up to 3 shells l<=2" if tier == "quick" else "up to 5 shells incl. f, at most 60 functions"}


def configs(tier, seed):
    out = []
    for n, sets in SETS.items():
        for si, _ in enumerate(sets):
            tps = al.type_patterns(n)
            if n > 3:
                tps = [tps[0], tps[-1], tps[6], tps[9]]
            for ti, tp in enumerate(tps):
                for ci, c in enumerate(CENTRES):
                    for ei, e in enumerate(EXPPAT):
                        if tier == "quick" and (si + ti + ci + ei) % 2:
                            continue
                        out.append({"n": n, "set": si, "types": list(tp), "centres": c, "exps": e, "tier": tier})
    return out


def build(cfg, eri=False):
    spec = SETS[cfg["n"]][cfg["set"]]
    d = {"coincident": 0.0, "near": 0.05, "bond": 1.4, "apart": 6.0}[cfg["centres"]]
    dirs = [np.array(hvec("pos-dir%d" % i, 3, -1, 1)) for i in range(5)]
    pos = np.array(hvec("pos-o", 3, -0.5, 0.5))
    shells = []
    for i, (l, K, M) in enumerate(spec):
        if i:
            pos = pos + d * dirs[i] / np.linalg.norm(dirs[i])
        lo, hi = (0.1, 10.0) if eri else (0.05, 50.0)
        if cfg["exps"] == "equal":
            base = [1.3 * (1 + 0.0 * k) for k in range(K)]
            base = [1.3 * (2.0 ** k) for k in range(K)]
        elif cfg["exps"] == "near-equal":
            base = [0.9 * (1.02 ** (i + 3 * k)) for k in range(K)]
        else:
            base = [lo * (hi / lo) ** (((i * 2 + k * 3) % 7) / 6.0) for k in range(K)]
            if len(set(base)) < K:
                base = [b * (1 + 0.1 * k) for k, b in enumerate(base)]
        shells.append(RefShell(l, pos, base, al.coeffs(K, M, rot=i), cfg["types"][i]))
    return shells


def psd(o, name, A, tol, key, sign=1.0):
    A = np.asarray(A)
    o.cmp(name + " symmetric", A, A.T, tol * 1e-3, np.max(np.abs(A)) + 1e-300, key=key + "-symmetric")
    w = np.linalg.eigvalsh((A + A.T) / 2) * sign
    lam = float(np.max(np.abs(w))) if w.size else 0.0
    o.check(name + (" positive" if sign > 0 else " negative") + " semi-definite", bool(w.min() >= -tol * lam - 1e-300),
            detail={"min_eig": float(w.min()), "max_abs_eig": lam}, key=key,
            token=(key, np.round(w / (lam + 1e-300), 5).tolist()[:6], len(w)))
    o.notes["min_rel_eig_" + key] = float(w.min() / (lam + 1e-300))


def evaluate(cfg):
    gb()
    from gbasis.integrals.electron_repulsion import electron_repulsion_integral
    from gbasis.integrals.kinetic_energy import kinetic_energy_integral
    from gbasis.integrals.overlap import overlap_integral
    from gbasis.integrals.point_charge import point_charge_integral

    o = Obs(cfg)
    shells = build(cfg)
    g = [gshell(s) for s in shells]
    S = overlap_integral(g)
    T = kinetic_energy_integral(g)
    o.call(2)
    psd(o, "overlap", S, 1e-9, "overlap-psd")
    o.check("|S_ij| <= 1", bool(np.all(np.abs(S) <= 1 + 1e-9)), detail=float(np.abs(S).max()), key="overlap-bound")
    psd(o, "kinetic", T, 1e-9, "kinetic-psd")
    c0 = np.array(shells[0].center)
    cl = np.array(shells[-1].center)
    pts = np.array([c0, cl, (c0 + cl) / 2 + 1e-3, c0 + np.array(hvec("pos-q", 3, -1, 1)), c0 + np.array([0, 0, 40.0]),
                    c0 + np.array([3e-8, 0, 0]), (c0 + cl) / 2 + np.array([0.0, 0.4, -0.3])])
    # the last charge is tiny (1e-8): its matrix is 1e-8 times smaller but just as negative semi-definite
    q = np.array([1.0, 0.1, 7.0, 100.0, 3.0, 2.0, 1e-8])
    V = point_charge_integral(g, pts, q)
    o.call()
    for k in range(len(q)):
        psd(o, "point-charge matrix (q>0) #%d" % k, V[:, :, k], 1e-9, "pointcharge-nsd", sign=-1.0)
    # ERI sub-family
    n = nbasis(shells)
    quick = cfg.get("tier") == "quick"
    lmax = max(s.l for s in shells)
    if (quick and (cfg["n"] > 3 or lmax > 2 or n > 16)) or (not quick and n > 60):
        return o
    if not quick and cfg["n"] >= 4 and cfg["types"][0] == "cartesian" and cfg["types"][-1] == "cartesian" and n > 40:
        return o
    es = build(cfg, eri=True)
    ge = [gshell(s) for s in es]
    E = electron_repulsion_integral(ge, notation="chemist")
    o.call()
    M = E.reshape(n * n, n * n)
    psd(o, "ERI pair matrix", M, 1e-6, "eri-psd")
    dg = np.einsum("abab->ab", E)
    o.check("(ab|ab) >= 0", bool(dg.min() >= -1e-6 * np.abs(dg).max()), detail=float(dg.min()), key="eri-diag")
    lhs = E ** 2
    rhs = dg[:, :, None, None] * dg[None, None, :, :]
    o.check("(ab|cd)^2 <= (ab|ab)(cd|cd)", bool(np.all(lhs <= rhs * (1 + 1e-6) + 1e-12 * np.abs(dg).max() ** 2)),
            detail=float(np.max(lhs - rhs)), key="eri-schwarz")
    return o
