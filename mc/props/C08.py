"""C08  momentum / angular-momentum integrals exact and Hermitian for every shell ordering (engine E1)."""
import itertools

import numpy as np

from .. import alphabet as al
from .. import pairspace as ps
from ..core import Obs, gb, gshell, hvec
from ..ref import oneel
from ..ref.shells import nbasis

ID = "C08"
ENGINE = "E1 product-space explorer"
RULE = ("complete product of (l_a,l_b) in 0..4 x type pair x geometry class x shape pattern (both shell orders, both "
        "block orientations, each single shell alone); plus bases of 3 and 4 shells over the shape ladder in EVERY "
        "ordering of the shells (n! permutations) x every type pattern, with and without a transformation. Every "
        "ordered pair (a,b) - upper, lower and diagonal blocks - of momentum_integral and angular_momentum_integral "
        "is compared with -i<a|grad|b> and -i<a|r x grad|b> about the coordinate origin from closed-form 1-D tables; "
        "real part exactly 0; returned arrays Hermitian. Non-trivial = reference not identically zero.")
ASSUMPTIONS = ["tolerance 1e-8 * Cauchy-Schwarz scale: (2T_aa 2T_bb)^(1/4) for p; sqrt(|r a||grad b| |r b||grad a|) for L"]
TOL = 1e-8
CHUNK = 4


def shapes(tier):
    if tier == "quick":
        return [(1, 1, 1, 2, 2, 0), (2, 2, 1, 1, 1, 1)]
    return [(1, 1, 0, 1, 1, 1), (1, 1, 2, 1, 1, 0), (2, 2, 0, 1, 1, 1), (1, 3, 1, 2, 1, 1), (2, 1, 1, 2, 2, 0),
            (3, 1, 0, 1, 2, 1), (4, 2, 0, 2, 3, 1), (3, 3, 1, 4, 1, 0)]


def bounds(tier):
    return {"l_pairs": 25, "type_pairs": 4, "geometries": 2 if tier == "quick" else 6,
            "shape_patterns": len(shapes(tier)), "3-shell bases": "all 6 orderings x 8 type patterns",
            "4-shell bases": ("all 24 orderings x 16 type patterns" if tier != "quick"
                              else "all 24 orderings x 2 type patterns")}


def configs(tier, seed):
    geoms = ["generic", "coincident"] if tier == "quick" else al.GEOMS
    out = ps.configs(tier, 4, singles=True, bases=False, shapes=shapes(tier), geoms=geoms)
    if tier == "quick":
        out += ps.close_configs(4)
    starts3 = [0] if tier == "quick" else [0, 1, 2, 3]
    for st in starts3:
        for perm in itertools.permutations(range(3)):
            for tp in al.type_patterns(3):
                out.append({"kind": "basis", "n": 3, "start": st, "types": list(tp), "lmax": 4, "perm": list(perm)})
    tps4 = [("cartesian", "spherical", "spherical", "cartesian"), ("spherical",) * 4] if tier == "quick" \
        else al.type_patterns(4)
    for st in ([1] if tier == "quick" else [0, 1, 2]):
        for perm in itertools.permutations(range(4)):
            for tp in tps4:
                out.append({"kind": "basis", "n": 4, "start": st, "types": list(tp), "lmax": 4, "perm": list(perm)})
    return out


def refs(shells):
    p = oneel.matrix_multi(shells, shells, oneel.GRAD)
    L = oneel.matrix_multi(shells, shells, oneel.RXGRAD, C=(0.0, 0.0, 0.0))
    t = np.abs(oneel.diag(shells, oneel.KINETIC))
    r2 = np.abs(oneel.diag(shells, [(1.0, ((2, 0), (0, 0), (0, 0))), (1.0, ((0, 0), (2, 0), (0, 0))),
                                    (1.0, ((0, 0), (0, 0), (2, 0)))]))
    G = np.sqrt(2 * t)
    R = np.sqrt(r2)
    sp = np.sqrt(np.outer(G, G))
    sl = np.sqrt(np.outer(R, G) * np.outer(G, R))
    return -1j * p, -1j * L, sp[:, :, None], sl[:, :, None]


def observe(o, g, shells, tag="", transform=None):
    from gbasis.integrals.angular_momentum import angular_momentum_integral
    from gbasis.integrals.momentum import momentum_integral

    pref, lref, sp, sl = refs(shells)
    if transform is not None:
        T = transform
        pref = np.einsum("ia,jb,abe->ije", T, T, pref)
        lref = np.einsum("ia,jb,abe->ije", T, T, lref)
        sp = np.einsum("ia,jb,abe->ije", np.abs(T), np.abs(T), sp)
        sl = np.einsum("ia,jb,abe->ije", np.abs(T), np.abs(T), sl)
        p = momentum_integral(g, transform=T)
        L = angular_momentum_integral(g, transform=T)
    else:
        p = momentum_integral(g)
        L = angular_momentum_integral(g)
    o.call(2)
    o.cmp("momentum_integral" + tag, p, pref, TOL, sp, key="momentum")
    o.cmp("angular_momentum_integral" + tag, L, lref, TOL, sl, key="angular_momentum")
    o.cmp("momentum real part == 0" + tag, p.real, np.zeros(p.shape), 0.0, 0.0, key="momentum-real")
    o.cmp("angular momentum real part == 0" + tag, L.real, np.zeros(L.shape), 0.0, 0.0, key="angmom-real")
    o.cmp("momentum Hermitian" + tag, p, np.conj(np.swapaxes(p, 0, 1)), 1e-10, sp, key="momentum-hermitian")
    o.cmp("angular momentum Hermitian" + tag, L, np.conj(np.swapaxes(L, 0, 1)), 1e-10, sl, key="angmom-hermitian")


def evaluate(cfg):
    gb()
    from gbasis.integrals.angular_momentum import AngularMomentumIntegral
    from gbasis.integrals.momentum import MomentumIntegral

    o = Obs(cfg)
    shells = ps.build(cfg)
    if "perm" in cfg:
        shells = [shells[i] for i in cfg["perm"]]
    g = [gshell(s) for s in shells]
    observe(o, g, shells)
    if cfg["kind"] == "pair" and cfg.get("alias"):
        observe(o, [g[0], g[1], g[0]], [shells[0], shells[1], shells[0]], tag=" [a, b, a] with a the same object")
    if cfg["kind"] == "pair":
        rev = [shells[1], shells[0]]
        observe(o, [g[1], g[0]], rev, tag=" reversed order")
        for x, y, nm in ((0, 1, "(a,b)"), (1, 0, "(b,a)"), (0, 0, "(a,a)")):
            sx = shells[x].with_(ctype="cartesian")
            sy = shells[y].with_(ctype="cartesian")
            pr, lr, sp, sl = refs([sx, sy])
            nx = sx.nfunc
            shp = (sx.M, sx.ncomp, sy.M, sy.ncomp, 3)
            for cls, rb, sc, nm2 in ((MomentumIntegral, pr, sp, "momentum"), (AngularMomentumIntegral, lr, sl, "angmom")):
                blk = cls.construct_array_contraction(g[x], g[y])
                o.call()
                blk = blk * g[x].norm_cont[:, :, None, None, None] * g[y].norm_cont[None, None, :, :, None]
                rb = rb[:nx, nx:] if x != y else rb[:nx, :nx]
                sc = np.broadcast_to(sc, pr.shape)
                sc = sc[:nx, nx:] if x != y else sc[:nx, :nx]
                o.cmp("%s block %s" % (nm2, nm), blk, rb.reshape(shp), TOL, sc.reshape(shp), key=nm2 + "-block")
    elif cfg["kind"] == "basis":
        n = nbasis(shells)
        T = np.array([hvec("c08T%d" % r, n, -1, 1) for r in range(n - 1)])
        observe(o, g, shells, tag=" transformed", transform=T)
    return o
