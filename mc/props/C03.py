"""C03  point-charge / nuclear-attraction integrals exact (engine E1)."""
import itertools

import numpy as np

from .. import alphabet as al
from .. import pairspace as ps
from ..core import Obs, gb, gshell, hfloat, hvec
from ..ref import coulomb

ID = "C03"
ENGINE = "E1 product-space explorer"
RULE = ("complete product of (l_a,l_b) in 0..5 (both L_a>=L_b and L_a<L_b, i.e. the internal swap) x type pair x "
        "geometry class x shape pattern; each configuration observed with charge sets of 1, 2, 3, 4 and 5 charges that "
        "together cover the 7 position classes {on A, on B, mid-bond, on an axis through A, generic near, far 100 "
        "bohr, 1e-7 off a centre} with both signs and magnitudes 0.1..100; for a sub-family every subset of 1..5 of "
        "the 7 classes (119 sets) is enumerated; per-charge slices compared separately with the McMurchie-Davidson "
        "reference; nuclear_electron_attraction_integral compared with the sum; block routine in both "
        "orientations. Non-trivial = reference not identically zero.")
ASSUMPTIONS = ["tolerance 1e-8 * sqrt(|V_aa V_bb|) per charge, V_aa from the reference"]
TOL = 1e-8
CHUNK = 2
CLASSES = ["onA", "onB", "mid", "axisA", "near", "far", "offA"]
TLADDER = [12.0, 22.0, 27.0, 31.0, 45.0]  # Boys arguments for the first primitive pair (where algorithms switch)
QS = {"onA": 1.0, "onB": -2.0, "mid": 0.1, "axisA": 6.0, "near": -0.7, "far": 100.0, "offA": 17.0}


def position(cls, A, B):
    A = np.array(A)
    B = np.array(B)
    if cls == "onA":
        return A
    if cls == "onB":
        return B.copy()
    if cls == "mid":
        return (A + B) / 2
    if cls == "axisA":
        return A + np.array([hfloat("axisA", 0.5, 1.5), 0.0, 0.0])
    if cls == "near":
        return np.array(hvec("near-charge", 3, -1.5, 1.5))
    if cls == "far":
        v = np.array(hvec("far-charge", 3, 0.3, 1.0)) * np.array([1, -1, 1])
        return A + 100.0 * v / np.linalg.norm(v)
    if cls == "offA":
        return A + np.array([6e-8, -5e-8, 6e-8])
    raise ValueError(cls)


def shapes(tier):
    if tier == "quick":
        return [(1, 1, 2, 2, 2, 0), (2, 1, 0, 1, 2, 1), (1, 1, 1, 1, 2, 1)]
    return [(1, 1, 0, 1, 1, 2), (1, 1, 2, 1, 1, 0), (2, 2, 0, 1, 1, 1), (1, 3, 1, 2, 1, 2), (2, 1, 2, 2, 2, 0),
            (3, 1, 1, 1, 2, 1), (4, 2, 0, 2, 3, 1), (3, 3, 1, 4, 1, 0)]


def bounds(tier):
    return {"l_pairs": 36, "type_pairs": 4, "geometries": 3 if tier == "quick" else len(al.GEOMS), "boys_ladder_T": TLADDER,
            "shape_patterns": len(shapes(tier)), "charge_position_classes": 7,
            "charge_subsets_family": "all 119 subsets of size 1..5 for %s l-pairs" % ("2" if tier == "quick" else "36")}


def configs(tier, seed):
    geoms = ["generic", "coincident", "tail28"] if tier == "quick" else al.GEOMS
    out = []
    for c in ps.configs(tier, 5, singles=False, bases=False, shapes=shapes(tier), geoms=geoms):
        out.append(dict(c, test="cover"))
    if tier == "quick":
        for c in ps.close_configs(5):
            out.append(dict(c, test="cover"))
        # representatives of the long-range diffuse/tight class (recorded finding F1, known_findings.json)
        # ... and of its neighbour outside that class: tight h against a diffuse d shell 12 bohr away, where the
        # result is accurate only because the recursion is built on the shell of higher angular momentum
        for la, lb, g, sp in ((5, 5, "far20z", [1, 1, 2, 1, 1, 0]), (4, 4, "far12x", [1, 1, 0, 1, 1, 2]),
                              (5, 4, "far12x", [1, 1, 1, 1, 1, 1]), (5, 2, "far12x", [1, 1, 2, 1, 1, 0]),
                              (5, 2, "far12x", [2, 1, 2, 2, 2, 0]), (5, 3, "far12x", [1, 1, 2, 1, 1, 0])):
            out.append({"kind": "pair", "la": la, "lb": lb, "ta": "cartesian", "tb": "spherical", "geom": g,
                        "shape": sp, "ic": None, "test": "cover"})
    lp = [(1, 3), (2, 0)] if tier == "quick" else [(la, lb) for la in range(6) for lb in range(6)]
    for la, lb in lp:
        out.append({"kind": "pair", "la": la, "lb": lb, "ta": "spherical", "tb": "cartesian", "geom": "generic",
                    "shape": [2, 1, 1, 1, 2, 0], "test": "subsets"})
    for n in (3, 4):
        for st in ([0] if tier == "quick" else [0, 1, 2, 3, 4]):
            for tp in (al.type_patterns(n) if tier != "quick" else al.type_patterns(n)[1::3]):
                out.append({"kind": "basis", "n": n, "start": st, "types": list(tp), "lmax": 5, "test": "basis"})
    return out


def charge_call(o, g, shells, classes, tag, ref_all, diag_all, cls_index, pos):
    from gbasis.integrals.nuclear_electron_attraction import nuclear_electron_attraction_integral
    from gbasis.integrals.point_charge import point_charge_integral

    sel = [cls_index[c] for c in classes]
    coords = np.array([pos[c] for c in classes])
    q = np.array([QS[c] for c in classes])
    got = point_charge_integral(g, coords, q)
    o.call()
    ref = -ref_all[:, :, sel] * q[None, None, :]
    d = diag_all[:, sel] * np.abs(q)[None, :]
    sc = np.sqrt(d[:, None, :] * d[None, :, :])
    o.cmp("point_charge_integral " + tag, got, ref, TOL, sc, key="point_charge")
    nuc = nuclear_electron_attraction_integral(g, coords, q)
    o.call()
    o.cmp("nuclear attraction == sum of slices " + tag, nuc, got.sum(axis=2), 1e-12, sc.sum(axis=2), key="nuc-sum")
    o.cmp("nuclear attraction vs reference " + tag, nuc, ref.sum(axis=2), TOL, sc.sum(axis=2), key="nuclear")


def known_f1(cfg, shells):
    """configuration class of the recorded finding F1 (see known_findings.json)"""
    if cfg.get("kind") != "pair" or min(cfg["la"], cfg["lb"]) < 4 or cfg["geom"] not in ("far12x", "far20z", "far33y", "far"):
        return False
    ma, mb = min(shells[0].exps), min(shells[1].exps)
    return min(ma, mb) <= 0.02 and max(ma, mb) >= 10 * min(ma, mb)


def evaluate(cfg):
    gb()
    from gbasis.integrals.point_charge import PointChargeIntegral

    o = Obs(cfg)
    shells = ps.build(cfg)
    g = [gshell(s) for s in shells]
    A, B = shells[0].center, shells[-1].center
    pos = {c: position(c, A, B) for c in CLASSES}
    # Boys-argument ladder: charges at P + u sqrt(T/p) for the first primitive pair of (first shell, last shell)
    ea, eb = shells[0].exps[0], shells[-1].exps[0]
    pp = ea + eb
    P = (ea * np.array(A) + eb * np.array(B)) / pp
    u = np.array(hvec("boys-u", 3, 0.3, 1.0)) * np.array([1, 1, -1])
    u /= np.linalg.norm(u)
    names = list(CLASSES)
    for T in TLADDER:
        pos["T%g" % T] = P + u * np.sqrt(T / pp)
        QS["T%g" % T] = 1.0 + T / 50.0
        names.append("T%g" % T)
    cls_index = {c: i for i, c in enumerate(names)}
    allpts = np.array([pos[c] for c in names])
    ref_all = coulomb.coulomb_matrix(shells, shells, allpts)
    diag_all = np.abs(coulomb.coulomb_diag(shells, allpts))
    # Boys-argument range actually exercised
    Ts = []
    for sa in shells:
        for sb in shells:
            ea = np.array(sa.exps)[:, None]
            eb = np.array(sb.exps)[None, :]
            p = ea + eb
            P = (ea[..., None] * np.array(sa.center) + eb[..., None] * np.array(sb.center)) / p[..., None]
            d2 = ((P[:, :, None, :] - allpts[None, None, :, :]) ** 2).sum(-1)
            Ts.append((p[:, :, None] * d2).ravel())
    Ts = np.concatenate(Ts)
    o.notes["min_boys_T"] = float(Ts.min())
    o.notes["max_boys_T"] = float(Ts.max())
    if cfg["test"] in ("cover", "basis"):
        charge_call(o, g, shells, ["onA", "mid", "near", "far", "offA"], "5 charges", ref_all, diag_all, cls_index, pos)
        charge_call(o, g, shells, ["axisA", "onB"], "2 charges", ref_all, diag_all, cls_index, pos)
        charge_call(o, g, shells, ["far"], "1 charge", ref_all, diag_all, cls_index, pos)
        charge_call(o, g, shells, ["near", "offA", "mid"], "3 charges", ref_all, diag_all, cls_index, pos)
        charge_call(o, g, shells, ["offA", "axisA", "far", "near"], "4 charges", ref_all, diag_all, cls_index, pos)
        charge_call(o, g, shells, ["T%g" % T for T in TLADDER], "Boys ladder", ref_all, diag_all, cls_index, pos)
    if cfg["test"] == "cover":
        from gbasis.integrals.point_charge import point_charge_integral
        icoords = np.array([[1, 0, 0], [0, 2, -1], [0, 0, 0]])
        iq = np.array([1, -2, 3])
        vi = point_charge_integral(g, icoords, iq)
        vf = point_charge_integral(g, icoords.astype(float), iq.astype(float))
        o.call(2)
        o.same("integer-dtype charge positions and charges == the same values as floats", vi, vf, key="charges-int-dtype")
        o.same("charge positions as Fortran-ordered / strided arrays",
               point_charge_integral(g, np.asfortranarray(allpts[:3]), np.array([QS[c] for c in names[:6]])[::2]),
               point_charge_integral(g, allpts[:3].copy(), np.array([QS[c] for c in names[:6]])[::2].copy()),
               key="charges-representation")
        o.call(2)
        rev = [shells[1], shells[0]]
        na = shells[0].nfunc
        perm = list(range(na, len(ref_all))) + list(range(na))
        charge_call(o, [g[1], g[0]], rev, ["onB", "near", "axisA"], "reversed shells",
                    ref_all[np.ix_(perm, perm)], diag_all[perm], cls_index, pos)
        q = np.array([QS[c] for c in names])
        for x, y, nm in ((0, 1, "(a,b)"), (1, 0, "(b,a)")):
            blk = PointChargeIntegral.construct_array_contraction(g[x], g[y], allpts, q)
            o.call()
            blk = blk * g[x].norm_cont[:, :, None, None, None] * g[y].norm_cont[None, None, :, :, None]
            sx, sy = shells[x].with_(ctype="cartesian"), shells[y].with_(ctype="cartesian")
            rb = -coulomb.coulomb_block(sx, sy, allpts, cart4=True) * q
            dx = np.abs(np.einsum("mcmcp->mcp", coulomb.coulomb_block(sx, sx, allpts, cart4=True))) * np.abs(q)
            dy = np.abs(np.einsum("mcmcp->mcp", coulomb.coulomb_block(sy, sy, allpts, cart4=True))) * np.abs(q)
            sc = np.sqrt(dx[:, :, None, None, :] * dy[None, None, :, :, :])
            o.cmp("construct_array_contraction" + nm, blk, rb, TOL, sc, key="point_charge-block")
    elif cfg["test"] == "subsets":
        for r in range(1, 6):
            for sub in itertools.combinations(CLASSES, r):
                charge_call(o, g, shells, list(sub), "subset", ref_all, diag_all, cls_index, pos)
    if o.violations and known_f1(cfg, shells):
        for v in o.violations:
            if v.get("what") == "value" and v.get("margin", 1e9) <= 20 and v["key"] in ("point_charge", "point_charge-block", "nuclear"):
                v["key"] = "known-F1/" + v["key"]
    return o
