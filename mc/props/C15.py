"""C15  stress tensor, Ehrenfest force (= -div sigma) and Ehrenfest Hessian (= Jacobian of the force) (E1)."""
import numpy as np

from .. import alphabet as al
from ..core import Obs, gb, gshell, hvec
from ..ref import evalref as er
from ..ref.shells import RefShell, nbasis

ID = "C15"
ENGINE = "E1 product-space explorer"
RULE = ("product of bases (1-3 shells, l 0..3, generalized, every coordinate-type pattern) x density class {PSD, "
        "indefinite} x transformation {none, square, rectangular} x alpha in {0, 1/2, 1, -0.3, 0.25, 2} x beta in "
        "{0, 1, -1.5} (all special-cased values and generic ones), plus alpha/beta a few 1e-6 away from each special-cased value; stress tensor compared with its documented "
        "definition in the D(p;q) term algebra; the force with MINUS THE DIVERGENCE of that definition and the Hessian "
        "with the JACOBIAN of that force, both derived mechanically (product rule), never transcribed from the code; "
        "symmetry of sigma, H_sym = (H + H^T)/2. Non-trivial = reference not identically zero.")
ASSUMPTIONS = ["tolerance 1e-9 * sum |c| |gamma_ab| |d^p phi_a| |d^q phi_b| over the terms of the definition"]
TOL = 1e-9
CHUNK = 1

BASES = [[(0, 2, 2)], [(1, 1, 1)], [(2, 1, 1), (0, 1, 2)], [(3, 1, 1), (1, 2, 1)], [(0, 1, 1), (1, 1, 2), (2, 2, 1)]]
ALPHAS = [0, 0.5, 1, -0.3, 0.25, 2]
BETAS = [0, 1, -1.5]
# values a few 1e-6 away from the special-cased ones (the special cases are exact equalities, not neighbourhoods)
NEAR_ALPHAS = [1 - 4e-6, 0.5 + 3e-6, 2e-6, -3e-6]
NEAR_BETAS = [2e-6, 1]
TRANS = ["none", "square", "rect"]


def bounds(tier):
    return {"bases": len(BASES), "type_patterns": "all 2^n", "density_classes": 3, "transforms": 3,
            "alpha": ALPHAS, "beta": BETAS, "near_special_alpha": NEAR_ALPHAS, "near_special_beta": NEAR_BETAS,
            "hessian_alpha_beta": "all 18" if tier != "quick" else "6 pairs covering every special-cased value"}


def configs(tier, seed):
    out = []
    for bi, b in enumerate(BASES):
        for ti, tp in enumerate(al.type_patterns(len(b))):
            for di, dens in enumerate(("psd", "indef", "zerodiag")):
                for ri, tr in enumerate(TRANS):
                    if tier == "quick" and (bi + 2 * ti + di + ri) % 5 != 0:
                        continue
                    out.append({"basis": bi, "types": list(tp), "dens": dens, "tr": tr, "tier": tier})
    out.append({"basis": 1, "types": ["spherical"], "dens": "indef", "tr": "square", "tier": tier, "npts": 20})
    out.append({"basis": 0, "types": ["cartesian"], "dens": "psd", "tr": "none", "tier": tier, "npts": 3})
    for bi in (0, 1, 2):
        out.append({"basis": bi, "types": ["cartesian", "spherical"][:len(BASES[bi])], "dens": ("indef", "psd")[bi % 2],
                    "tr": TRANS[bi], "tier": tier, "near": 1})
    for npts in (1, 2, 4):
        out.append({"basis": 0, "types": ["cartesian"], "dens": "indef", "tr": "none", "tier": tier, "npts": npts})
    return out


def build(cfg):
    spec = BASES[cfg["basis"]]
    cs = al.molecule_centers(len(spec), tag="st-mol")
    shells = []
    for i, (l, K, M) in enumerate(spec):
        exps = [(0.5, 1.4, 4.0)[(i + k) % 3] * (1 + 0.5 * k) for k in range(K)]
        shells.append(RefShell(l, cs[i], exps, al.coeffs(K, M, rot=i), cfg["types"][i]))
    c0 = np.array(cs[0])
    pts = [c0, c0 + np.array([0.0, 0.5, -0.4])] + [np.array(hvec("st-pt%d" % i, 3, -1.8, 1.8))
                                                    for i in range(4 if not cfg.get("npts") else max(1, cfg["npts"] - 2))]
    if cfg.get("npts") in (1, 2):
        pts = pts[::-1][:cfg["npts"]]
    return shells, np.array(pts)


def evaluate(cfg):
    gb()
    from gbasis.evals import stress_tensor as st

    o = Obs(cfg)
    shells, pts = build(cfg)
    g = [gshell(s) for s in shells]
    n = nbasis(shells)
    tr = cfg["tr"]
    if tr == "none":
        T, k = None, n
    elif tr == "square":
        T, k = np.array([hvec("stT%d" % r, n, -1, 1) for r in range(n)]), n
    else:
        k = max(1, n - 1) if n > 1 else 1
        T = np.array([hvec("stR%d" % r, n, -1, 1) for r in range(k)])
    X = np.array([hvec("stX%d" % r, k, -1, 1) for r in range(k)])
    gam = X @ X.T if cfg["dens"] == "psd" else (X + X.T) / 2
    if cfg["dens"] == "zerodiag":
        # symmetric, with exactly zero diagonal entries but non-zero rows (spin / difference / transition densities)
        gam = gam.copy()
        gam[0, 0] = 0.0
        gam[-1, -1] = 0.0
    gam_ao = gam if T is None else T.T @ gam @ T
    kw = {} if T is None else {"transform": T}
    ev = er.BasisEvaluator(shells, pts, 4)
    z = np.zeros(len(pts))

    def R(terms):
        v, m = er.evaluate(terms, ev, gam_ao)
        return v + z, m + z

    quick = cfg.get("tier") == "quick"
    hess_pairs = {(0, 0), (0.5, 1), (1, -1.5), (-0.3, 0), (0.25, 1), (2, -1.5)}
    near = bool(cfg.get("near"))
    for alpha in (NEAR_ALPHAS if near else ALPHAS):
        for beta in (NEAR_BETAS if near else BETAS):
            tag = " alpha=%s beta=%s" % (alpha, beta)
            sig = [[R(er.stress(i, j, alpha, beta)) for j in range(3)] for i in range(3)]
            sref = np.stack([np.stack([sig[i][j][0] for j in range(3)], axis=1) for i in range(3)], axis=1)
            smag = np.stack([np.stack([sig[i][j][1] for j in range(3)], axis=1) for i in range(3)], axis=1)
            S = st.evaluate_stress_tensor(gam, g, pts, alpha=alpha, beta=beta, **kw)
            o.call()
            o.cmp("evaluate_stress_tensor" + tag, S, sref, TOL, smag, key="stress")
            o.cmp("stress tensor symmetric" + tag, S, np.swapaxes(S, 1, 2), 1e-12, smag, key="stress-symmetric")
            fo = [R(er.force(j, alpha, beta)) for j in range(3)]
            fref = np.stack([fo[j][0] for j in range(3)], axis=1)
            fmag = np.stack([fo[j][1] for j in range(3)], axis=1)
            F = st.evaluate_ehrenfest_force(gam, g, pts, alpha=alpha, beta=beta, **kw)
            o.call()
            o.cmp("evaluate_ehrenfest_force == -div sigma" + tag, F, fref, TOL, fmag, key="force")
            if quick and not near and (alpha, beta) not in hess_pairs:
                continue
            he = [[R(er.force_jacobian(i, j, alpha, beta)) for j in range(3)] for i in range(3)]
            href = np.stack([np.stack([he[i][j][0] for j in range(3)], axis=1) for i in range(3)], axis=1)
            hmag = np.stack([np.stack([he[i][j][1] for j in range(3)], axis=1) for i in range(3)], axis=1)
            H = st.evaluate_ehrenfest_hessian(gam, g, pts, alpha=alpha, beta=beta, **kw)
            o.call()
            o.cmp("evaluate_ehrenfest_hessian == Jacobian of force" + tag, H, href, TOL, hmag, key="hessian")
            Hs = st.evaluate_ehrenfest_hessian(gam, g, pts, alpha=alpha, beta=beta, symmetric=True, **kw)
            o.call()
            o.cmp("symmetric hessian == (H + H^T)/2" + tag, Hs, (href + np.swapaxes(href, 1, 2)) / 2, TOL,
                  (hmag + np.swapaxes(hmag, 1, 2)) / 2, key="hessian-symmetric")
            o.cmp("symmetric hessian vs library's own H" + tag, Hs, (H + np.swapaxes(H, 1, 2)) / 2, 1e-12,
                  (hmag + np.swapaxes(hmag, 1, 2)) / 2, key="hessian-symmetric-lib")
    return o


def cost(cfg):
    return sum((l + 1) ** 2 * M for l, K, M in BASES[cfg["basis"]])
