"""C06  density and density-derived fields equal their definitions; threshold rule (engine E1)."""
import numpy as np

from .. import alphabet as al
from ..core import Obs, gb, gshell, hvec
from ..ref import evalref as er
from ..ref.shells import RefShell, nbasis

ID = "C06"
ENGINE = "E1 product-space explorer"
RULE = ("product of bases (1-4 shells, l 0..4, generalized, every coordinate-type pattern) x density-matrix class "
        "{PSD rank-1, PSD full, indefinite, diagonal, zero} x transformation {none, square, rectangular}; each "
        "configuration is observed through evaluate_density / _deriv_density (all 125 order triples in thorough, the 45 "
        "triples with some order in {0,4} on x or total order <= 2 in quick) / _gradient / _laplacian / _hessian / "
        "posdef and general kinetic-energy density (alpha in {0, 1/2, 1, -0.7, 2.5}) with both derivative back-ends, "
        "and at thresholds {0.5, 0.99, 1.01, 2} x |most negative value| plus the default. Oracle: term algebra over "
        "D(p;q) with mechanical differentiation on reference derivative tables. Non-trivial = reference not "
        "identically zero.")
ASSUMPTIONS = ["tolerance 1e-9 * sum |gamma_ab| |d^p phi_a| |d^q phi_b| (magnitudes of monomial terms)",
               "threshold rule: reference minimum < -1.005 thr => ValueError expected; >= -0.995 thr => clipped values "
               "expected; in between nothing is asserted",
               "the general kinetic-energy density is checked for PSD density matrices (its positive-definite part is "
               "subject to the default threshold rule)"]
TOL = 1e-9
CHUNK = 1

BASES = [[(0, 2, 2)], [(2, 1, 1)], [(1, 2, 1), (0, 1, 2)], [(3, 1, 1), (1, 1, 2)], [(4, 2, 1), (0, 2, 1)],
         [(0, 1, 1), (1, 1, 1), (2, 2, 2)], [(2, 1, 2), (3, 2, 1), (1, 3, 1)], [(0, 3, 1), (1, 2, 2), (2, 1, 1), (4, 1, 1)]]
DENS = ["psd1", "psd", "indef", "diag", "zero", "zerodiag"]
TRANS = ["none", "square", "rect"]
ALPHAS = [0, 0.5, 1, -0.7, 2.5]


def orders_for(tier):
    allo = al.order_triples(4)
    if tier == "quick":
        return [t for t in allo if (t[0] == 4 and t[1] + t[2] <= 2) or sum(t) <= 2 or t in ((1, 4, 0), (0, 3, 4), (2, 2, 2), (3, 0, 1))]
    return allo


def bounds(tier):
    return {"bases": len(BASES) if tier != "quick" else 4, "type_patterns": "all 2^n", "density_classes": 6,
            "transforms": 3, "orders": len(orders_for(tier)), "backends": 2, "alphas": ALPHAS,
            "threshold_factors": [0.5, 0.99, 1.01, 2, "default", "exactly |min| and the float below it", "0 for exactly non-negative densities"]}


def configs(tier, seed):
    out = []
    bases = list(range(len(BASES))) if tier != "quick" else [0, 2, 3, 5]
    for bi in bases:
        for ti, tp in enumerate(al.type_patterns(len(BASES[bi]))):
            for di, dens in enumerate(DENS):
                for ri, tr in enumerate(TRANS):
                    # quick: a Latin-square style third of the product (every dens x transform pair, every type
                    # pattern and every basis still occurs); thorough: complete, except 4-shell bases (a third)
                    if tier == "quick" and (bi + ti + di + ri) % 3 != 0:
                        continue
                    if tier != "quick" and len(BASES[bi]) == 4 and (ti + di + ri) % 3 != 0:
                        continue
                    out.append({"basis": bi, "types": list(tp), "dens": dens, "tr": tr, "tier": tier})
    for tr in TRANS:  # upper end of the point-count range
        out.append({"basis": 2, "types": ["spherical", "cartesian"], "dens": "indef", "tr": tr, "tier": tier, "npts": 30})
    for npts in (1, 2, 3, 4, 5, 6):  # every small point count
        out.append({"basis": 2, "types": [("cartesian", "spherical")[npts % 2], "cartesian"],
                    "dens": ("psd", "indef", "diag")[npts % 3], "tr": TRANS[npts % len(TRANS)], "tier": tier, "npts": npts})
    return out


def build(cfg):
    spec = BASES[cfg["basis"]]
    cs = al.molecule_centers(len(spec), tag="dens-mol")
    shells = []
    for i, (l, K, M) in enumerate(spec):
        exps = [(0.45, 1.6, 5.0)[(i + k) % 3] * (1 + 0.5 * k) for k in range(K)]
        shells.append(RefShell(l, cs[i], exps, al.coeffs(K, M, rot=i), cfg["types"][i]))
    c0 = np.array(cs[0])
    pts = [c0, c0 + np.array([0.0, 0.6, -0.3]), c0 + np.array([0.0, 0.0, 0.9])]
    pts += [np.array(hvec("dens-pt%d" % i, 3, -2.0, 2.0)) for i in range(5 if not cfg.get("npts") else max(3, cfg["npts"] - 3))]
    if cfg.get("npts") and cfg["npts"] < 8:  # point-count ladder: generic points first
        pts = (pts[3:] + pts[:3])[:cfg["npts"]]
    return shells, np.array(pts)


def density_matrix(kind, k):
    X = np.array([hvec("densX%d" % r, k, -1, 1) for r in range(k)])
    if kind == "psd1":
        v = X[0]
        return np.outer(v, v)
    if kind == "psd":
        return X @ X.T
    if kind == "indef":
        return (X + X.T) / 2
    if kind == "zerodiag":
        g = (X + X.T) / 2
        g[0, 0] = 0.0
        g[-1, -1] = 0.0
        return g
    if kind == "diag":
        return np.diag(np.abs(X[0]) + 0.1)
    return np.zeros((k, k))


def expect_threshold(o, name, fn, ref, mag, thr, key):
    """fn(threshold) must raise if min(ref) < -thr (with guard band) else return clip(ref, 0)."""
    rmin = float(np.min(ref))
    guard = 1e-9 * float(np.max(mag)) + 1e-300
    if rmin < -(thr * 1.005 + guard):
        o.raises(name + " must raise", lambda: fn(thr), key=key + "-no-raise", exc=ValueError)
    elif rmin >= -(thr * 0.995 - guard) or rmin >= 0:
        try:
            got = fn(thr)
            o.call()
        except ValueError as e:
            o.call()
            o.check(name + " must clip, not raise", False, detail=str(e)[:120] + " ; ref min %.6g thr %.6g" % (rmin, thr),
                    key=key + "-raised")
            return
        o.cmp(name, got, np.clip(ref, 0, None), TOL, mag, key=key)
        o.check(name + " non-negative", bool(np.all(got >= 0)), key=key + "-negative")


def exact_boundary(o, name, fn, ref, mag, dens, key):
    """The clipping rule at its boundary: "a negative value is returned as 0 when its magnitude is AT MOST the
    threshold".  (a) threshold 0 with a density that is exactly >= 0 in floating point (zero matrix, positive diagonal
    matrix) must return; (b) with the most negative value b taken from the library's own error message (so it is the
    number the library compared, bit for bit), threshold |b| must return the clipped values and the next smaller
    float must raise.  (b) is skipped (noted) if the message carries no parsable number."""
    import re

    if dens in ("zero", "diag"):
        try:
            got = fn(0.0)
            o.call()
            o.cmp(name + " threshold 0, no negative value", got, np.clip(ref, 0, None), TOL, mag, key=key + "-thr0")
        except ValueError as e:
            o.call()
            o.check(name + " threshold 0 with no negative value must return", False, detail=str(e)[:150], key=key + "-thr0-raised")
    rmin = float(np.min(ref))
    if rmin >= -1e-6 * float(np.max(mag)):
        return
    try:
        fn(0.5 * abs(rmin))
        o.call()
        return  # reported by expect_threshold
    except ValueError as e:
        o.call()
        nums = re.findall(r"-\d+\.?\d*(?:[eE][-+]?\d+)?", str(e))
    b = None
    for t in nums[::-1]:
        v = float(t)
        if abs(v - rmin) <= 1e-6 * abs(rmin):
            b = v
            break
    if b is None:
        o.notes["boundary_message_unparsed"] = o.notes.get("boundary_message_unparsed", 0) + 1
        return
    try:
        got = fn(abs(b))
        o.call()
        o.cmp(name + " threshold == |most negative value|", got, np.clip(ref, 0, None), TOL, mag, key=key + "-boundary")
    except ValueError as e:
        o.call()
        o.check(name + " threshold == |most negative value| must clip, not raise", False,
                detail={"value": b, "message": str(e)[:120]}, key=key + "-boundary-raised", token=("bd", key))
    o.raises(name + " threshold just below |most negative value| must raise",
             lambda: fn(float(np.nextafter(abs(b), 0.0))), key=key + "-boundary-no-raise", exc=ValueError)


def evaluate(cfg):
    gb()
    from gbasis.evals import density as dn

    o = Obs(cfg)
    shells, pts = build(cfg)
    g = [gshell(s) for s in shells]
    n = nbasis(shells)
    tr = cfg["tr"]
    if tr == "none":
        T, k = None, n
    elif tr == "square":
        T, k = np.array([hvec("densT%d" % r, n, -1, 1) for r in range(n)]), n
    else:
        k = max(1, n - 2)
        T = np.array([hvec("densR%d" % r, n, -1, 1) for r in range(k)])
    gam = density_matrix(cfg["dens"], k)
    gam_ao = gam if T is None else T.T @ gam @ T
    kw = {} if T is None else {"transform": T}
    ev = er.BasisEvaluator(shells, pts, 4)
    psd = cfg["dens"] in ("psd1", "psd", "diag", "zero")

    def R(terms):
        return er.evaluate(terms, ev, gam_ao)

    # --- density and its threshold rule
    rho, rmag = R(er.RHO)
    if np.isscalar(rho):
        rho = np.zeros(len(pts))
        rmag = np.zeros(len(pts))
    thrs = [1e-8]
    if rho.min() < 0:
        thrs += [f * abs(rho.min()) for f in (0.5, 0.99, 1.01, 2.0)]
    for thr in thrs:
        expect_threshold(o, "evaluate_density thr=%.3g" % thr,
                         lambda t: dn.evaluate_density(gam, g, pts, threshold=t, **kw), rho, rmag, thr, "density")
    exact_boundary(o, "evaluate_density", lambda t: dn.evaluate_density(gam, g, pts, threshold=t, **kw), rho, rmag,
                   cfg["dens"], "density")
    # --- a density matrix that is symmetric only within the tolerance the library accepts (C n C^T accumulated in
    # single precision, say): the density is still the full double sum over BOTH triangles
    if cfg["dens"] in ("psd", "indef", "zerodiag") and k > 1:
        gam_t = gam * (1.0 + 4e-7 * np.triu(np.ones((k, k)), 1))
        gt_ao = gam_t if T is None else T.T @ gam_t @ T
        rt, mt = er.evaluate(er.RHO, ev, gt_ao)
        try:
            got = dn.evaluate_density(gam_t, g, pts, threshold=1e300, **kw)
            o.call()
            o.cmp("evaluate_density, matrix symmetric to 4e-7 only", got, np.clip(rt, 0, None), TOL, mt, key="density-tolerance-symmetric")
        except ValueError:
            o.call()  # rejecting such a matrix is acceptable; silently using one triangle is not
            o.notes["tolerance_symmetric_rejected"] = o.notes.get("tolerance_symmetric_rejected", 0) + 1
    # --- arbitrary-order derivative of the density, both back-ends
    for order in orders_for(cfg.get("tier", "thorough")):
        ref, mag = R(er.deriv_density(order))
        ref = ref + np.zeros(len(pts))
        mag = mag + np.zeros(len(pts))
        for bk in ("general", "direct"):
            got = dn.evaluate_deriv_density(np.array(order), gam, g, pts, deriv_type=bk, **kw)
            o.call()
            o.cmp("evaluate_deriv_density %s %s" % (order, bk), got, ref, TOL, mag, key="deriv_density")
    # --- equivalent representations of the arguments (transposed view of the symmetric matrix, strided points)
    pts2 = np.repeat(pts, 2, axis=0)[::2]
    o.cmp("density with the matrix given as its transposed view and strided points",
          dn.evaluate_deriv_density(np.array([1, 0, 1]), gam.T, g, pts2, **kw),
          dn.evaluate_deriv_density(np.array([1, 0, 1]), gam, g, pts, **kw), 1e-12, np.abs(R(er.deriv_density((1, 0, 1)))[1]) + 1e-300,
          key="argument-representation")
    o.call(2)
    # --- gradient / laplacian / hessian
    grad = [R(er.RHO.d(i)) for i in range(3)]
    lap, lmag = R(er.laplacian())
    hess = [[R(er.RHO.d(i).d(j)) for j in range(3)] for i in range(3)]
    z = np.zeros(len(pts))
    gref = np.stack([grad[i][0] + z for i in range(3)], axis=1)
    gmag = np.stack([grad[i][1] + z for i in range(3)], axis=1)
    href = np.stack([np.stack([hess[i][j][0] + z for j in range(3)], axis=1) for i in range(3)], axis=1)
    hmag = np.stack([np.stack([hess[i][j][1] + z for j in range(3)], axis=1) for i in range(3)], axis=1)
    for bk in ("general", "direct"):
        G = dn.evaluate_density_gradient(gam, g, pts, deriv_type=bk, **kw)
        L = dn.evaluate_density_laplacian(gam, g, pts, deriv_type=bk, **kw)
        H = dn.evaluate_density_hessian(gam, g, pts, deriv_type=bk, **kw)
        o.call(3)
        o.cmp("evaluate_density_gradient " + bk, G, gref, TOL, gmag, key="gradient")
        o.cmp("evaluate_density_laplacian " + bk, L, lap + z, TOL, lmag + z, key="laplacian")
        o.cmp("evaluate_density_hessian " + bk, H, href, TOL, hmag, key="hessian")
        o.cmp("hessian symmetric " + bk, H, np.swapaxes(H, 1, 2), 1e-12, hmag, key="hessian-symmetric")
        o.cmp("trace hessian == laplacian " + bk, np.trace(H, axis1=1, axis2=2), L, 1e-11, lmag + z, key="hessian-trace")
    # --- positive-definite kinetic energy density and its threshold rule
    t, tmag = R(er.posdef_ked())
    t = t + z
    tmag = tmag + z
    thrs = [1e-8]
    if t.min() < 0:
        thrs += [f * abs(t.min()) for f in (0.5, 0.99, 1.01, 2.0)]
    for bk in ("general", "direct"):
        for thr in thrs:
            expect_threshold(o, "evaluate_posdef_kinetic_energy_density thr=%.3g %s" % (thr, bk),
                             lambda th: dn.evaluate_posdef_kinetic_energy_density(gam, g, pts, deriv_type=bk,
                                                                                  threshold=th, **kw),
                             t, tmag, thr, "posdef-ked")
        exact_boundary(o, "evaluate_posdef_kinetic_energy_density " + bk,
                       lambda th: dn.evaluate_posdef_kinetic_energy_density(gam, g, pts, deriv_type=bk, threshold=th, **kw),
                       t, tmag, cfg["dens"], "posdef-ked")
    if psd:
        for alpha in ALPHAS:
            ref = np.clip(t, 0, None) + alpha * (lap + z)
            for bk in ("general", "direct"):
                got = dn.evaluate_general_kinetic_energy_density(gam, g, pts, alpha, deriv_type=bk, **kw)
                o.call()
                o.cmp("evaluate_general_kinetic_energy_density alpha=%s %s" % (alpha, bk), got, ref, TOL,
                      tmag + abs(alpha) * (lmag + z), key="general-ked")
    return o


def cost(cfg):
    return sum((l + 1) ** 2 * M for l, K, M in BASES[cfg["basis"]])
