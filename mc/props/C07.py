"""C07  multipole-moment integrals exact for every order and origin (engine E1)."""
import numpy as np

from .. import alphabet as al
from .. import pairspace as ps
from ..core import Obs, gb, gshell, hvec
from ..ref import oneel
from ..ref.num import binom
from ..ref.shells import nbasis

ID = "C07"
ENGINE = "E1 product-space explorer"
RULE = ("complete product of (l_a,l_b) in 0..4 x type pair x geometry class x shape pattern x origin class "
        "{on A, on B, mid-bond, generic, far 100 bohr}; each configuration is observed with all 125 order triples "
        "(orders 0..4 per axis) in one call, with every ordered pair of triples from a 12-element generating list "
        "and three shuffled 5-long lists (order of the last axis, shared max-order table), the (0,0,0) slice against "
        "overlap_integral, and the binomial origin-shift law; whole 3/4-shell bases for all type patterns with and "
        "without a rectangular transformation. Non-trivial = reference not identically zero.")
ASSUMPTIONS = ["tolerance 1e-8 * (<a|m^2|a><b|m^2|b>)^(1/4) (Cauchy-Schwarz scale of the element), from the reference"]
TOL = 1e-8
CHUNK = 2

ALL = al.order_triples(4)
GEN12 = [(0, 0, 0), (1, 0, 0), (0, 1, 0), (0, 0, 1), (2, 0, 0), (0, 1, 1), (1, 0, 3), (4, 0, 0), (0, 4, 0),
         (0, 0, 4), (2, 3, 1), (4, 4, 4)]
LIST5 = [[(4, 0, 1), (0, 0, 0), (1, 1, 1), (0, 3, 0), (2, 0, 2)],
         [(0, 0, 2), (3, 1, 0), (0, 0, 0), (1, 4, 2), (0, 1, 0)],
         [(1, 0, 0), (1, 0, 0), (0, 2, 4), (3, 3, 3), (0, 0, 1)]]
ORIGINS = ["onA", "onB", "mid", "generic", "far"]


def origin(cls, A, B):
    if cls == "onA":
        return tuple(A)
    if cls == "onB":
        return tuple(B)
    if cls == "mid":
        return tuple((a + b) / 2 for a, b in zip(A, B))
    if cls == "generic":
        return tuple(hvec("mom-origin", 3, -1.5, 1.5))
    if cls == "far":
        v = hvec("mom-far", 3, 0.4, 1.0)
        n = sum(x * x for x in v) ** 0.5
        return (100 * v[0] / n, -100 * v[1] / n, 100 * v[2] / n)
    raise ValueError(cls)


def shapes(tier):
    if tier == "quick":
        return [(1, 1, 1, 2, 2, 0), (2, 1, 1, 1, 2, 1)]
    return [(1, 1, 0, 1, 1, 1), (1, 1, 2, 1, 1, 0), (2, 2, 0, 1, 1, 1), (1, 3, 1, 2, 1, 1), (2, 1, 1, 2, 2, 0),
            (3, 1, 0, 1, 2, 1), (4, 2, 0, 2, 3, 1), (3, 3, 1, 4, 1, 0)]


def bounds(tier):
    return {"l_pairs": 25, "type_pairs": 4, "geometries": 2 if tier == "quick" else 6,
            "shape_patterns": len(shapes(tier)), "origin_classes": 5, "order_triples": 125,
            "ordered_pairs_of_triples": 144, "shuffled_lists": 3}


def configs(tier, seed):
    geoms = ["generic", "coincident"] if tier == "quick" else al.GEOMS
    out = []
    for c in ps.configs(tier, 4, singles=False, bases=False, shapes=shapes(tier), geoms=geoms):
        # origin classes cycle over configurations in quick, full product in thorough
        if tier == "quick":
            i = (c["la"] * 5 + c["lb"] + (c["ta"] == "spherical") + 2 * (c["tb"] == "spherical")
                 + geoms.index(c["geom"]) + c["shape"][0]) % 5
            out.append(dict(c, origin=ORIGINS[i], test="all125"))
        else:
            for oc in ORIGINS:
                out.append(dict(c, origin=oc, test="all125"))
    if tier == "quick":
        for i, c in enumerate(ps.close_configs(4)):
            out.append(dict(c, origin=ORIGINS[i % 5], test="all125"))
    # order-list behaviour
    lp = [(1, 2), (3, 0)] if tier == "quick" else [(la, lb) for la in range(5) for lb in range(5)]
    for la, lb in lp:
        for ta, tb in ([("cartesian", "spherical")] if tier == "quick" else al.type_patterns(2)):
            out.append({"kind": "pair", "la": la, "lb": lb, "ta": ta, "tb": tb, "geom": "generic",
                        "shape": [2, 2, 0, 1, 1, 1], "origin": "generic", "test": "lists"})
    for n in (3, 4):
        for st in ([0] if tier == "quick" else [0, 1, 2, 3]):
            for tp in al.type_patterns(n):
                out.append({"kind": "basis", "n": n, "start": st, "types": list(tp), "lmax": 4, "origin": "generic",
                            "test": "basis"})
    return out


def cs_scale(shells, C, orders):
    """(<a|m^2|a><b|m^2|b>)^(1/4) per (a, b, order)."""
    d = oneel.diag_multi(shells, [oneel.MOMENT(2 * i, 2 * j, 2 * k) for (i, j, k) in orders], C)
    d = np.sqrt(np.abs(d))  # ||m a||
    return np.sqrt(d[:, None, :] * d[None, :, :])


def evaluate(cfg):
    gb()
    from gbasis.integrals.moment import moment_integral
    from gbasis.integrals.overlap import overlap_integral

    o = Obs(cfg)
    shells = ps.build(cfg)
    g = [gshell(s) for s in shells]
    A = shells[0].center
    B = shells[-1].center
    C = origin(cfg["origin"], A, B)
    Cn = np.array(C)
    if cfg["test"] == "all125":
        orders = ALL
        ref = oneel.matrix_multi(shells, shells, [oneel.MOMENT(*t) for t in orders], C)
        sc = cs_scale(shells, C, orders)
        got = moment_integral(g, Cn, np.array(orders))
        o.call()
        o.cmp("moment_integral 125 orders", got, ref, TOL, sc)
        S = overlap_integral(g)
        o.call()
        o.cmp("order (0,0,0) == overlap", got[:, :, 0], S, 1e-14, 1.0)
        # reversed shell order
        na = shells[0].nfunc
        perm = list(range(na, len(ref))) + list(range(na))
        got2 = moment_integral([g[1], g[0]], Cn, np.array(orders[::-1]))
        o.call()
        o.cmp("reversed shells, reversed order list", got2, ref[np.ix_(perm, perm)][:, :, ::-1],
              TOL, sc[np.ix_(perm, perm)][:, :, ::-1])
        # origin shift law from the library's own lower moments: C -> C2
        if cfg["origin"] != "far":
            C2 = origin("far", A, B) if cfg["origin"] == "generic" else origin("generic", A, B)
            d = [C[ax] - C2[ax] for ax in range(3)]  # (x - C2) = (x - C) + d
            got_c2 = moment_integral(g, np.array(C2), np.array(orders))
            o.call()
            idx = {t: n for n, t in enumerate(orders)}
            pred = np.zeros_like(got)
            amp = np.zeros_like(got)
            for (i, j, k), n in idx.items():
                for p in range(i + 1):
                    for q in range(j + 1):
                        for r in range(k + 1):
                            f = (binom(i, p) * binom(j, q) * binom(k, r) * d[0] ** (i - p)
                                 * d[1] ** (j - q) * d[2] ** (k - r))
                            pred[:, :, n] += f * got[:, :, idx[(p, q, r)]]
                            # each lower moment is only required to be exact to TOL * its own scale; the expansion
                            # multiplies that allowance by |f| (and its rounding by the size of the terms)
                            amp[:, :, n] += abs(f) * (sc[:, :, idx[(p, q, r)]] + 1e-4 * np.abs(got[:, :, idx[(p, q, r)]]))
            sc2 = cs_scale(shells, C2, orders)
            # the expansion is evaluated in double precision from the library's own lower moments: its rounding
            # error is proportional to the sum of |terms| (cancellation), not to the result
            o.cmp("origin shift = binomial expansion in lower moments", got_c2, pred, TOL, sc2 + amp)
    elif cfg["test"] == "lists":
        refall = oneel.matrix_multi(shells, shells, [oneel.MOMENT(*t) for t in ALL], C)
        scall = cs_scale(shells, C, ALL)
        idx = {t: n for n, t in enumerate(ALL)}
        for t1 in GEN12:
            for t2 in GEN12:
                got = moment_integral(g, Cn, np.array([t1, t2]))
                o.call()
                sel = [idx[t1], idx[t2]]
                o.cmp("ordered pair of triples", got, refall[:, :, sel], TOL, scall[:, :, sel])
        for lst in LIST5:
            got = moment_integral(g, Cn, np.array(lst))
            o.call()
            sel = [idx[t] for t in lst]
            o.cmp("shuffled 5-list", got, refall[:, :, sel], TOL, scall[:, :, sel])
        # every list length 1..4 (a 3-long list is a 3x3 array: its rows, not its columns, are the triples)
        for lst in ([(2, 0, 1)], [(0, 1, 3), (1, 0, 0), (2, 2, 0)], [(1, 2, 0), (0, 0, 1), (3, 0, 1)],
                    [(0, 1, 0), (2, 1, 1), (0, 0, 0), (1, 3, 2)]):
            got = moment_integral(g, Cn, np.array(lst))
            o.call()
            sel = [idx[t] for t in lst]
            o.cmp("%d-long list" % len(lst), got, refall[:, :, sel], TOL, scall[:, :, sel], key="list-length")
    else:
        orders = GEN12[:11]
        ref = oneel.matrix_multi(shells, shells, [oneel.MOMENT(*t) for t in orders], C)
        sc = cs_scale(shells, C, orders)
        got = moment_integral(g, Cn, np.array(orders))
        o.call()
        o.cmp("moment_integral whole basis", got, ref, TOL, sc)
        n = nbasis(shells)
        T = np.array([hvec("momT%d" % r, n, -1, 1) for r in range(3)])
        gotT = moment_integral(g, Cn, np.array(orders), transform=T)
        o.call()
        refT = np.einsum("ia,jb,abe->ije", T, T, ref)
        scT = np.einsum("ia,jb,abe->ije", np.abs(T), np.abs(T), sc)
        o.cmp("moment_integral with rectangular transform", gotT, refT, TOL, scT)
    return o
