"""C05  basis-function values and arbitrary-order derivatives exact; back-ends agree or reject (E1)."""
import numpy as np

from .. import alphabet as al
from ..core import Obs, gb, gshell, hvec
from ..ref.evalref import BasisEvaluator
from ..ref.shells import RefShell, nbasis

ID = "C05"
ENGINE = "E1 product-space explorer"
RULE = ("product of single shells (l 0..6 x K x M x exponent pattern x coordinate type) and multi-shell bases (2-4 "
        "shells over the shape ladder x every type pattern x transformation {none, square, rectangular}); each "
        "configuration is observed at a point set assembled from the classes {on the centre, same x as the centre, "
        "on an axis through the centre, generic, mid-range, far} for ALL 125 derivative-order triples (orders 0..4) "
        "with back-ends 'general' and 'direct' and an unknown back-end name; values compared with exact polynomial "
        "differentiation; 'direct' must equal 'general' when every order <= 2 and must raise otherwise. "
        "Non-trivial = reference not identically zero.")
ASSUMPTIONS = ["tolerance 1e-9 * (sum of magnitudes of the monomial terms of the derivative: the condition scale of the "
               "value), so zeros of the polynomial factor cannot false-alarm"]
TOL = 1e-9
CHUNK = 1
ORDERS = al.order_triples(4)


def points_for(shells, npts=None):
    c = np.array(shells[0].center)
    g1 = np.array(hvec("evpt-a", 3, -1.0, 1.0))
    g2 = np.array(hvec("evpt-b", 3, -2.5, 2.5))
    pts = [c.copy(),                                   # on the centre
           np.array([c[0], c[1] + 0.7, c[2] - 0.4]),   # x - X = 0 only
           np.array([c[0], c[1], c[2] + 1.1]),         # on the z axis through the centre
           np.array([c[0] - 0.9, c[1], c[2]]),         # on the x axis through the centre
           c + g1, c + g2,
           c + np.array([4.0, -5.0, 4.5]),             # far
           np.array(shells[-1].center) + np.array([0.3, 0.0, 0.0])]
    if npts == 1:
        return np.array([pts[4]])
    if npts is not None and npts < 8:  # point-count ladder: the generic points first (an unsymmetric 3x3 block at 3)
        return np.array([pts[4], pts[5], pts[6], pts[1], pts[7], pts[2], pts[3]][:npts])
    if npts == 50:
        extra = [c + np.array(hvec("evpt-x%d" % i, 3, -3.0, 3.0)) for i in range(42)]
        return np.array(pts + extra)
    return np.array(pts)


def single_shapes(tier):
    if tier == "quick":
        return [(1, 1, 1), (2, 2, 0), (3, 1, 0)]
    out = []
    for K in (1, 2, 3, 4):
        for pat in range(len(al.exp_patterns(0, K))):
            out.append((K, 1 + (K + pat) % 3, pat))
    return out


def bounds(tier):
    return {"l": "0..6", "single_shell_shapes": len(single_shapes(tier)), "types": 2, "order_triples": 125,
            "backends": ["general", "direct", "unknown name"], "points": "8 (classes) ; every count 1..7 ; 50",
            "multi_shell": "2-4 shells, all type patterns, transforms none/square/rect"}


def configs(tier, seed):
    out = []
    for l in range(7):
        for (K, M, pat) in single_shapes(tier):
            for t in ("cartesian", "spherical"):
                out.append({"kind": "single", "l": l, "K": K, "M": M, "pat": pat, "t": t, "npts": 8})
    for l, npts in ((2, 1), (5, 50), (0, 50), (6, 1)):
        out.append({"kind": "single", "l": l, "K": 2, "M": 2, "pat": 1, "t": "spherical", "npts": npts})
    out.append({"kind": "single", "l": 1, "K": 2, "M": 1, "pat": 1, "t": "cartesian", "npts": 3})  # 3 functions x 3 points
    for npts in (2, 3, 4, 5, 6, 7):  # every small point count (a layout guess can only go wrong at a particular count)
        out.append({"kind": "single", "l": 1 + npts % 2, "K": 2, "M": 1, "pat": 1, "t": ("cartesian", "spherical")[npts % 2],
                    "npts": npts})
        out.append({"kind": "basis", "n": 2, "start": 0, "types": ["spherical", "cartesian"], "tr": ("none", "rect")[npts % 2],
                    "npts": npts})
    for ls, tp in (((0, 2, 1), ("cartesian", "spherical", "cartesian")), ((3, 1, 0), ("spherical", "spherical", "cartesian")),
                   ((1, 1, 4), ("cartesian", "cartesian", "spherical"))):
        out.append({"kind": "basis", "alias": 1, "ls": list(ls), "types": list(tp), "tr": "none", "npts": 8, "n": 3, "start": 0})
    for n in (2, 3, 4):
        for st in ([0] if tier == "quick" else [0, 1, 2, 3, 4, 5]):
            tps = al.type_patterns(n)
            for tp in tps:
                trs = ["none", "square", "rect"]
                for tr in trs:
                    if tier == "quick" and trs.index(tr) != (tps.index(tp) + n) % 3:
                        continue
                    out.append({"kind": "basis", "n": n, "start": st, "types": list(tp), "tr": tr, "npts": 8})
    return out


def build(cfg):
    from .. import core

    core.ALIAS_POOL = {} if cfg.get("alias") else None
    if cfg.get("alias"):  # shells of different l on the same exponent / coefficient array objects
        cs = al.molecule_centers(3, tag="ev-mol")
        return [RefShell(l, cs[i], (0.4, 1.9), [[0.6, 0.3], [0.5, -0.8]], cfg["types"][i]) for i, l in enumerate(cfg["ls"])]
    if cfg["kind"] == "single":
        return [al.shell(cfg["l"], al.generic_center("A"), cfg["K"], cfg["M"], cfg["t"], pat=cfg["pat"])]
    cs = al.molecule_centers(cfg["n"], tag="ev-mol")
    return [al.ladder_shell(cfg["start"] + i, cs[i], cfg["types"][i], lmax=6) for i in range(cfg["n"])]


def evaluate(cfg):
    gb()
    from gbasis.evals.eval import evaluate_basis
    from gbasis.evals.eval_deriv import evaluate_deriv_basis

    o = Obs(cfg)
    shells = build(cfg)
    g = [gshell(s) for s in shells]
    pts = points_for(shells, cfg.get("npts"))
    ev = BasisEvaluator(shells, pts, 4)
    n = nbasis(shells)
    T = None
    if cfg.get("tr") == "square":
        T = np.array([hvec("evT%d" % r, n, -1, 1) for r in range(n)])
    elif cfg.get("tr") == "rect":
        T = np.array([hvec("evR%d" % r, n, -1, 1) for r in range(max(1, n // 2))])
    kw = {} if T is None else {"transform": T}

    def ref(order):
        v, m = ev.deriv(order)
        if T is not None:
            return T @ v, np.abs(T) @ m
        return v, m

    v0, m0 = ref((0, 0, 0))
    got0 = evaluate_basis(g, pts, **kw)
    o.call()
    o.cmp("evaluate_basis", got0, v0, TOL, m0, key="evaluate_basis")
    for order in ORDERS:
        v, m = ref(order)
        oa = np.array(order)
        gen = evaluate_deriv_basis(g, pts, oa, deriv_type="general", **kw)
        o.call()
        o.cmp("evaluate_deriv_basis general %s" % (order,), gen, v, TOL, m, key="deriv-general")
        if order == (0, 0, 0):
            o.cmp("evaluate_basis == order-0 derivative", got0, gen, 1e-14, m0, key="eval-vs-deriv0")
        if max(order) <= 2:
            dr = evaluate_deriv_basis(g, pts, oa, deriv_type="direct", **kw)
            o.call()
            o.cmp("evaluate_deriv_basis direct %s" % (order,), dr, v, TOL, m, key="deriv-direct")
            o.cmp("direct == general %s" % (order,), dr, gen, 1e-11, m, key="direct-vs-general")
        else:
            o.raises("direct back-end must reject order %s" % (order,),
                     lambda: evaluate_deriv_basis(g, pts, oa, deriv_type="direct", **kw), key="direct-order>2-not-rejected")
            if order in ((3, 0, 0), (0, 4, 1), (2, 1, 3)):
                # the same request through the class behind the public function: rejected, or answered exactly
                from gbasis.evals.eval_deriv import EvalDeriv

                cts = [x.coord_type for x in g]
                try:
                    if T is None:
                        got_c = EvalDeriv(g).construct_array_mix(cts, points=pts, orders=oa, deriv_type="direct")
                    else:
                        got_c = EvalDeriv(g).construct_array_lincomb(T, cts, points=pts, orders=oa, deriv_type="direct")
                    o.call()
                    o.cmp("EvalDeriv class route, direct, order %s: answered, so it must be exact" % (order,), got_c, v, TOL, m,
                          key="direct-order>2-class-route")
                except (ValueError, TypeError, NotImplementedError):
                    o.call()
    # equivalent representations of the same points: Fortran-ordered copy, strided view, read-only array; and a
    # set of integer-valued points given with integer dtype
    reps = {"F-ordered": np.asfortranarray(pts), "strided view": np.repeat(pts, 2, axis=0)[::2],
            "column-strided view": np.hstack([pts, pts])[:, :3], "read-only": pts.copy()}
    reps["read-only"].setflags(write=False)
    for od in ((0, 0, 0), (1, 2, 0), (0, 0, 3)):
        base = evaluate_deriv_basis(g, pts, np.array(od), **kw)
        for nm, arr in reps.items():
            o.same("points given as %s, order %s" % (nm, od), evaluate_deriv_basis(g, arr, np.array(od), **kw), base,
                   key="points-representation")
            o.call()
    ipts = np.array([[0, 1, -1], [2, 0, 1], [1, 1, 0], [0, 0, 0]])
    o.same("integer-dtype points == the same points as floats", evaluate_basis(g, ipts, **kw),
           evaluate_basis(g, ipts.astype(float), **kw), key="points-int-dtype")
    for nm, arr in (("int64", ipts), ("float32", pts.astype(np.float32)), ("int32", ipts.astype(np.int32))):
        ev2 = BasisEvaluator(shells, arr.astype(float), 2)
        for od in ((0, 2, 1), (1, 0, 0), (2, 2, 2)):
            v2, m2 = ev2.deriv(od)
            if T is not None:
                v2, m2 = T @ v2, np.abs(T) @ m2
            a = evaluate_deriv_basis(g, arr, np.array(od), deriv_type="direct", **kw)
            b = evaluate_deriv_basis(g, arr, np.array(od), deriv_type="general", **kw)
            o.call(2)
            o.cmp("direct back-end with %s points, order %s" % (nm, od), a, v2, TOL, m2, key="points-dtype-direct")
            o.cmp("general back-end with %s points, order %s" % (nm, od), b, v2, TOL, m2, key="points-dtype-general")
    o.same("orders given as a non-contiguous / int32 array",
           evaluate_deriv_basis(g, pts, np.array([[1, 9], [0, 9], [2, 9]])[:, 0], **kw),
           evaluate_deriv_basis(g, pts, np.array([1, 0, 2]), **kw), key="orders-representation")
    o.call(4)
    o.raises("unknown back-end name must be rejected",
             lambda: evaluate_deriv_basis(g, pts, np.array([1, 0, 0]), deriv_type="hermite", **kw),
             key="unknown-backend-not-rejected")
    return o
