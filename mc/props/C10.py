"""C10  the Cartesian->spherical matrix is the set of real regular solid harmonics (engine E1)."""
import itertools
import math

import numpy as np

from ..core import Obs, gb
from ..ref.num import dfact
from ..ref.shells import cart_comps, cart_metric, parse_label, sph_labels, sph_transform

ID = "C10"
ENGINE = "E1 product-space explorer"
RULE = ("every l in 0..10 with the documented default orders; every permutation of the Cartesian component order for "
        "l<=2 (and all 10! for l=3 in the thorough tier, a generating set - adjacent transpositions, reversal, cyclic "
        "shift - otherwise and above); every order x sign pattern of the spherical labels for l<=2 (2 + 48 + 3840) and "
        "the generating set above; both apply_from values; a finite list of malformed label sets / Cartesian orders "
        "per l<=3 that must be rejected. Oracle per matrix: rows are harmonic (Laplacian of the polynomial vanishes), "
        "orthonormal under the unit-normalised-Cartesian metric, vary as cos/sin(m phi) with a positive common factor "
        "near the pole, equal the independent generator Pi_l^m(z,r^2) Re/Im (x+iy)^m; permuted / signed requests equal "
        "the permuted / negated default matrix exactly; left == right^T exactly.")
ASSUMPTIONS = ["1e-12 relative tolerance for the analytic identities (harmonic, orthonormal, azimuthal)"]
CHUNK = 1


def bounds(tier):
    return {"l": "0..10", "cart_permutations": "all for l<=2" + (", all 3628800 for l=3" if tier != "quick" else ""),
            "sph_order_sign_patterns": "all for l<=2 (3890)", "generating_set_above": True,
            "malformed_requests": "about 40 per l<=3"}


def gen_perms(n):
    """generating set of permutations of range(n)"""
    ident = list(range(n))
    out = [ident]
    for i in range(n - 1):
        p = ident.copy()
        p[i], p[i + 1] = p[i + 1], p[i]
        out.append(p)
    out.append(ident[::-1])
    out.append(ident[1:] + ident[:1])
    return out


def configs(tier, seed):
    out = []
    for l in range(11):
        out.append({"kind": "default", "l": l})
        out.append({"kind": "cart-gen", "l": l})
        out.append({"kind": "sph-gen", "l": l})
    for l in range(3):
        out.append({"kind": "cart-all", "l": l, "prefix": []})
        if l < 2:
            out.append({"kind": "sph-all", "l": l, "first": None})
        else:
            for first in range(5):
                out.append({"kind": "sph-all", "l": l, "first": first})
    if tier != "quick":
        for a in range(10):
            for b in range(10):
                if a != b:
                    out.append({"kind": "cart-all", "l": 3, "prefix": [a, b]})
    for l in range(4):
        out.append({"kind": "malformed", "l": l})
    return out


def analytic_checks(o, l, M, comps, labels, tag):
    """M: 'left' matrix (2l+1, ncart) for the given orders."""
    comps = [tuple(int(v) for v in c) for c in comps]
    G = cart_metric(comps)
    o.cmp("orthonormal under unit-Cartesian metric" + tag, M @ G @ M.T, np.eye(2 * l + 1), 1e-12, 1.0, key="orthonormal")
    w = np.array([1.0 / math.sqrt(dfact(2 * a - 1) * dfact(2 * b - 1) * dfact(2 * c - 1)) for a, b, c in comps])
    for r, lab in enumerate(labels):
        sign, m = parse_label(lab)
        poly = {c: M[r, i] * w[i] for i, c in enumerate(comps) if M[r, i] != 0}
        mx = max(abs(v) for v in poly.values())
        lap = {}
        for (a, b, c), v in poly.items():
            for ax, e in enumerate((a, b, c)):
                if e >= 2:
                    k = [a, b, c]
                    k[ax] -= 2
                    lap[tuple(k)] = lap.get(tuple(k), 0.0) + v * e * (e - 1)
        worst = max([abs(v) for v in lap.values()] + [0.0])
        o.check("row %s harmonic%s" % (lab, tag), worst <= 1e-12 * mx * (l + 1) ** 2, detail=worst, key="harmonic",
                token=("harm", l, m))
        vals = []
        for rho, z in ((0.01, 1.0), (0.3, 0.7)):
            row = []
            for phi in (0.3, 1.1, 2.9, 4.0, 5.6):
                x, y = rho * math.cos(phi), rho * math.sin(phi)
                v = sum(cf * x ** a * y ** b * z ** c for (a, b, c), cf in poly.items())
                ang = math.cos(m * phi) if m >= 0 else math.sin(-m * phi)
                row.append(sign * v / ang)
            vals.append(row)
        ok = all(np.allclose(row, row[0], rtol=1e-9, atol=0) for row in vals) and vals[0][0] > 0
        o.check("row %s ~ cos/sin(m phi) with positive polar factor%s" % (lab, tag), ok, detail=vals[0][:2],
                key="azimuthal", token=("azi", l, m))


def evaluate(cfg):
    gb()
    from gbasis.contractions import GeneralizedContractionShell
    from gbasis.spherical import generate_transformation

    o = Obs(cfg)
    l = cfg["l"]
    comps = cart_comps(l)
    labels = sph_labels(l)
    ca = np.array(comps)
    dflt = generate_transformation(l, ca, tuple(labels), "left")
    o.call()
    kind = cfg["kind"]
    if kind == "default":
        sh = GeneralizedContractionShell(l, np.zeros(3), np.array([1.0]), np.array([1.0]), "spherical")
        o.check("default Cartesian order is the documented one", np.array_equal(sh.angmom_components_cart, ca)
                if l > 0 else True, key="default-cart-order", token=("dc", l))
        o.check("default spherical order is the documented one", tuple(sh.angmom_components_sph) == tuple(labels),
                key="default-sph-order", token=("ds", l))
        o.cmp("matrix equals independent generator", dflt, sph_transform(l), 1e-12, 1.0, key="generator")
        analytic_checks(o, l, dflt, comps, labels, "")
        right = generate_transformation(l, ca, tuple(labels), "right")
        o.call()
        o.same("left == right^T", dflt, right.T, key="left-right")
        o.same("list of labels == tuple of labels", generate_transformation(l, ca, list(labels), "left"), dflt,
               key="list-tuple")
        o.call()
    elif kind in ("cart-gen", "cart-all"):
        n = len(comps)
        if kind == "cart-gen":
            perms = gen_perms(n)
        else:
            pre = cfg["prefix"]
            rest = [i for i in range(n) if i not in pre]
            perms = (pre + list(p) for p in itertools.permutations(rest))
        cnt = 0
        bad = 0
        first_bad = None
        for p in perms:
            p = list(p)
            got = generate_transformation(l, ca[p], tuple(labels), "left")
            cnt += 1
            if not np.array_equal(got, dflt[:, p]):
                bad += 1
                first_bad = first_bad or p
        o.call(cnt)
        o.notes["permutations"] = cnt
        o.check("Cartesian order honoured exactly for %d permutations" % cnt, bad == 0,
                detail={"n_bad": bad, "first": first_bad}, key="cart-order", token=("cp", l, cnt, tuple(cfg.get("prefix", []))))
        if kind == "cart-gen" and l <= 6:
            p = gen_perms(n)[-1]
            got = generate_transformation(l, ca[p], tuple(labels), "left")
            analytic_checks(o, l, got, ca[p], labels, " (cyclic Cartesian order)")
    elif kind in ("sph-gen", "sph-all"):
        n = 2 * l + 1
        if kind == "sph-gen":
            perms = gen_perms(n)
            signs = [[1] * n, [-1] * n] + [[-1 if i == j else 1 for i in range(n)] for j in range(n)]
        else:
            if cfg["first"] is None:
                perms = list(itertools.permutations(range(n)))
            else:
                rest = [i for i in range(n) if i != cfg["first"]]
                perms = [[cfg["first"]] + list(p) for p in itertools.permutations(rest)]
            signs = list(itertools.product([1, -1], repeat=n))
        cnt = 0
        bad = 0
        first_bad = None
        for p in perms:
            p = list(p)
            for s in signs:
                labs = tuple(("-" if sg < 0 else "") + labels[i] for i, sg in zip(p, s))
                got = generate_transformation(l, ca, labs, "left")
                cnt += 1
                exp = dflt[p] * np.array(s)[:, None]
                if not np.array_equal(got, exp):
                    bad += 1
                    first_bad = first_bad or labs
        o.call(cnt)
        o.notes["sph_patterns"] = cnt
        o.check("spherical order/sign honoured exactly for %d patterns" % cnt, bad == 0,
                detail={"n_bad": bad, "first": first_bad}, key="sph-order", token=("sp", l, cnt, cfg.get("first")))
        if kind == "sph-gen" and 0 < l <= 6:
            p = gen_perms(n)[-2]
            labs = tuple(("-" if i % 2 else "") + labels[j] for i, j in enumerate(p))
            got = generate_transformation(l, ca, labs, "left")
            analytic_checks(o, l, got, comps, labs, " (reversed, alternating signs)")
    else:
        good = tuple(labels)
        n = 2 * l + 1
        bads = [good[:-1], good + ("c0",), good + ("c%d" % (l + 1),), tuple("c%d" % (l + 1) if x == good[-1] else x for x in good),
                tuple("s0" if x == "c0" else x for x in good), tuple("x" + x[1:] for x in good),
                tuple(x.upper() for x in good), tuple(x + "-" for x in good), tuple("--" + x for x in good),
                tuple("+" + x for x in good), tuple(x[0] + "-" + x[1:] for x in good), tuple(" " + x for x in good),
                tuple(list(good[:-1]) + [good[0]]) if n > 1 else ("c1",), tuple(None if i == 0 else x for i, x in enumerate(good)),
                tuple(0 for _ in good), "".join(good), set(good), {x: 1 for x in good}, None, np.array(good),
                tuple(x[0] for x in good), tuple(x[0] + "%d.0" % int(x[1:]) for x in good), ()]
        for i, b in enumerate(bads):
            if isinstance(b, tuple) and b == good:
                continue
            o.raises("malformed spherical labels #%d %r must be rejected" % (i, b if not isinstance(b, np.ndarray) else "ndarray"),
                     lambda b=b: generate_transformation(l, ca, b, "left"), key="malformed-sph-accepted")
        nc = len(comps)
        cbad = [ca[:-1] if nc > 1 else np.zeros((0, 3), dtype=int), np.vstack([ca, ca[:1]]), ca + 1, ca.T if nc != 3 else ca[:, :2],
                ca.tolist(), ca.astype(float) + 0.5, np.vstack([ca[:-1], [[l + 1, -1, 0]]]) if nc > 1 else np.array([[1, -1, 0]])]
        if nc > 1:
            dup = ca.copy()
            dup[1] = dup[0]
            cbad.append(dup)
        for i, b in enumerate(cbad):
            o.raises("malformed Cartesian order #%d must be rejected" % i,
                     lambda b=b: generate_transformation(l, b, good, "left"), key="malformed-cart-accepted")
        for side in ("Left", "both", 0, None, ""):
            o.raises("invalid apply_from %r must be rejected" % (side,),
                     lambda side=side: generate_transformation(l, ca, good, side), key="malformed-side-accepted")
        for ll in (-1, l + 1, float(l), None, str(l)):
            o.raises("inconsistent angmom %r must be rejected" % (ll,),
                     lambda ll=ll: generate_transformation(ll, ca, good, "left"), key="malformed-l-accepted")
    return o
