"""C09  spherical / mixed / transformed results derive from the Cartesian ones; conventions honoured (E2 + E1)."""
import itertools

import numpy as np

from .. import alphabet as al
from ..core import Obs, gb, gshell, hvec
from ..ref.shells import RefShell, cart_comps, nbasis, parse_label, sph_labels, sph_transform
from ..rewrite import Explorer, System, default_env, density_quantities, integral_quantities, post_bfs

ID = "C09"
ENGINE = "E2 rewrite-graph BFS (+ E1 on labelled dummy blocks)"
RULE = ("Part A (assembly on labelled dummy blocks, complete for all shapes in the bound): stub subclasses of the four "
        "base classes return blocks built from pairwise incommensurate labels (non-product symmetric, Hermitian, "
        "asymmetric and eight-fold symmetric label functions, extra trailing axis, labelled norm_cont); every basis of "
        "1-2 shells over all (l 0..4, M 1..3) shapes and 3-4 shells over a 6-shape sub-list (four-index: 1-3 shells, "
        "l<=2, M<=2), every type pattern, through construct_array_cartesian / _spherical / _mix / _lincomb with "
        "rectangular T; expected array from an explicit shell->segment->component loop model. "
        "Part B (real modules, BFS): states = (basis, type pattern, transformation, component convention); transitions "
        "= switch one shell Cartesian->spherical (lattice of all 2^n patterns), attach T (square / wide / tall), switch "
        "a shell to another component order / sign convention (all permutations and sign patterns for l<=2, generating "
        "set for l=3,4); law: X(new) = L X(old) L^T on every basis index with L = (+) I_M (x) C_shell from the reference "
        "harmonics, T, or the signed permutation, for every public quantity.")
ASSUMPTIONS = ["tolerance 1e-10 of the condition scale (ERI: 2e-6 of the Schwarz scale)"]
CHUNK = 1
SHAPES_ALL = [(l, M) for l in range(5) for M in (1, 2, 3)]
SHAPES_SUB = [(0, 2), (1, 1), (2, 3), (3, 1), (4, 2), (1, 3)]
SHAPES_4IDX = [(0, 1), (0, 2), (1, 1), (1, 2), (2, 1), (2, 2)]


def post(results, tier):
    out = post_bfs(results, tier)
    a = sum(1 for r in results if r["cfg"]["kind"].startswith("A"))
    out["coverage"]["states"] += a
    out["coverage"]["transitions"] += sum(r["calls"] for r in results if r["cfg"]["kind"].startswith("A"))
    out["coverage"]["part_A_bases"] = a
    return out


def bounds(tier):
    return {"part_A": {"one/two-index": "15 + 225 bases (all shapes), 216 triples, %s quadruples" % ("216 of 1296" if tier == "quick" else "1296"),
                       "four-index": "6 + 36 + %s bases" % ("36 of 216" if tier == "quick" else "216"),
                       "quick_subsets": "triples/quadruples: Latin-square subsets (36 each) in the quick tier",
                       "type_patterns": "all 2^n", "entry_points": ["cartesian", "spherical", "mix", "lincomb"]},
            "part_B": {"type_lattice": "all 2^n patterns for 1-4 shell bases", "transforms": ["square", "wide", "tall", "0/1-valued with several ones per row", "entries up to 40", "integer dtype", "Fortran-ordered"],
                       "cart_permutations": "all for l<=2; generating set l=3,4",
                       "sph_order_sign": "all 3890 for l<=2; generating set l=3,4"}}


def configs(tier, seed):
    out = []
    # ---- part A
    for n in (1, 2):
        for shp in itertools.product(range(len(SHAPES_ALL)), repeat=n):
            out.append({"kind": "A2", "shapes": [list(SHAPES_ALL[i]) for i in shp]})
    for shp in itertools.product(range(6), repeat=3):
        if tier == "quick" and shp[2] != (shp[0] + shp[1]) % 6:
            continue  # Latin square: every ordered pair of shapes still occurs in positions (0,1), (0,2), (1,2)
        out.append({"kind": "A2", "shapes": [list(SHAPES_SUB[i]) for i in shp]})
    for shp in itertools.product(range(6), repeat=4):
        if tier == "quick" and (shp[2] != (shp[0] + 2 * shp[1]) % 6 or shp[3] != (2 * shp[0] + shp[1] + 1) % 6):
            continue
        out.append({"kind": "A2", "shapes": [list(SHAPES_SUB[i]) for i in shp]})
    for n in (1, 2, 3):
        for shp in itertools.product(range(6), repeat=n):
            if tier == "quick" and n == 3 and sum(shp) % 6:
                continue
            out.append({"kind": "A4", "shapes": [list(SHAPES_4IDX[i]) for i in shp]})
    # ---- part B
    for n in (1, 2, 3, 4):
        for st in ([0, 3] if tier == "quick" else [0, 1, 2, 3, 4, 5]):
            out.append({"kind": "B-lattice", "n": n, "start": st, "tier": tier})
    for l in range(5):
        if l == 2:
            for first in range(6):
                out.append({"kind": "B-cart-conv", "l": l, "tier": tier, "part": first})
        else:
            out.append({"kind": "B-cart-conv", "l": l, "tier": tier, "part": None})
    for l in range(5):
        if l == 2:
            for first in range(5):
                out.append({"kind": "B-sph-conv", "l": l, "tier": tier, "part": first})
        else:
            out.append({"kind": "B-sph-conv", "l": l, "tier": tier, "part": None})
    return out


# ------------------------------------------------------------------------------------------------
# part A
# ------------------------------------------------------------------------------------------------
_PRIMES = [p for p in range(2, 4000) if all(p % q for q in range(2, int(p ** 0.5) + 1))]


def labels_for(shell_id, M, L):
    idx = np.arange(M * L).reshape(M, L) + 97 * shell_id
    return 0.5 + np.sqrt(np.array(_PRIMES)[idx % len(_PRIMES)]) % 1.0 + 0.01 * shell_id


def partA(o, cfg):
    gb()
    from gbasis.base_four_symm import BaseFourIndexSymmetric
    from gbasis.base_one import BaseOneIndex
    from gbasis.base_two_asymm import BaseTwoIndexAsymmetric
    from gbasis.base_two_symm import BaseTwoIndexSymmetric
    from gbasis.contractions import GeneralizedContractionShell
    from gbasis.spherical import generate_transformation

    extra = np.array([1.0, -3.0])

    class One(BaseOneIndex):
        @staticmethod
        def construct_array_contraction(contractions, pts=None):
            return contractions._lab[:, :, None] * extra[None, None, :]

    class TwoSym(BaseTwoIndexSymmetric):
        @staticmethod
        def construct_array_contraction(c1, c2):
            x, y = c1._lab, c2._lab
            return (1.0 / (1.0 + x[:, :, None, None] + y[None, None, :, :]))[..., None] * extra

    class TwoHerm(BaseTwoIndexSymmetric):
        @staticmethod
        def construct_array_contraction(c1, c2):
            x, y = c1._lab, c2._lab
            return (1j * (x[:, :, None, None] - y[None, None, :, :]) * (1 + x[:, :, None, None] * y[None, None, :, :]))[..., None] * extra

    class TwoAsym(BaseTwoIndexAsymmetric):
        @staticmethod
        def construct_array_contraction(c1, c2):
            x, y = c1._lab, c2._lab2
            return (x[:, :, None, None] + 2 * y[None, None, :, :] + x[:, :, None, None] * y[None, None, :, :])[..., None] * extra

    class Four(BaseFourIndexSymmetric):
        @staticmethod
        def construct_array_contraction(c1, c2, c3, c4):
            a, b, c, d = c1._lab, c2._lab, c3._lab, c4._lab
            g1 = 1.0 / (1.0 + a[:, :, None, None] + b[None, None, :, :])
            g2 = 1.0 / (1.0 + c[:, :, None, None] + d[None, None, :, :])
            return (g1[:, :, :, :, None, None, None, None] * g2[None, None, None, None, :, :, :, :])[..., None] * extra

    shapes = cfg["shapes"]
    n = len(shapes)
    shells = []
    for i, (l, M) in enumerate(shapes):
        sh = GeneralizedContractionShell(l, np.array([0.1 * i, 0.0, 0.0]), np.ones((1, M)), np.array([1.0 + i]), "cartesian")
        L = (l + 1) * (l + 2) // 2
        sh._lab = labels_for(i, M, L)
        sh._lab2 = labels_for(i + 11, M, L)
        sh.norm_cont = labels_for(i + 23, M, L) + 0.5
        shells.append(sh)
    # Cartesian label vectors over all functions (shell -> segment -> component)
    x = np.concatenate([s._lab.ravel() for s in shells])
    nc = np.concatenate([s.norm_cont.ravel() for s in shells])
    ncart = len(x)
    four = cfg["kind"] == "A4"
    if four:
        g = 1.0 / (1.0 + x[:, None] + x[None, :])
        C4 = (g[:, :, None, None] * g[None, None, :, :]) * nc[:, None, None, None] * nc[None, :, None, None] \
            * nc[None, None, :, None] * nc[None, None, None, :]
        C4 = C4[..., None] * extra
    else:
        C1 = (x * nc)[:, None] * extra[None, :]
        Csym = (1.0 / (1.0 + x[:, None] + x[None, :]) * np.outer(nc, nc))[..., None] * extra
        Cherm = (1j * (x[:, None] - x[None, :]) * (1 + np.outer(x, x)) * np.outer(nc, nc))[..., None] * extra

    def Lmat(types, shell_list=None):
        shell_list = shells if shell_list is None else shell_list
        blocks = []
        for s, t in zip(shell_list, types):
            if t == "cartesian":
                U = np.eye(s.num_cart)
            else:
                U = generate_transformation(s.angmom, s.angmom_components_cart, s.angmom_components_sph, "left")
            blocks.append(np.kron(np.eye(s.num_seg_cont), U))
        n1 = sum(b.shape[0] for b in blocks)
        n2 = sum(b.shape[1] for b in blocks)
        L = np.zeros((n1, n2))
        r = c = 0
        for b in blocks:
            L[r:r + b.shape[0], c:c + b.shape[1]] = b
            r += b.shape[0]
            c += b.shape[1]
        return L

    def ap(arr, L, naxes):
        out = arr
        for ax in range(naxes):
            out = np.moveaxis(np.tensordot(L, out, axes=(1, ax)), 0, ax)
        return out

    def cmpz(name, got, exp, key, amp=None):
        # scale: largest element, or (for transformed arrays) the transformation applied to absolute values, so
        # that results that vanish by symmetry (x^T A x of an antisymmetric block) are compared on a sound scale
        sc = np.max(np.abs(exp)) + 1e-300
        if amp is not None:
            sc = max(sc, float(np.max(amp)))
        o.cmp(name, got, exp, 1e-12, sc, key=key)

    for types in al.type_patterns(n):
        types = list(types)
        L = Lmat(types)
        nf = L.shape[0]
        T = np.array([hvec("A-T%d" % r, nf, -1, 1) for r in range(max(1, nf - 1))][: min(nf + 1, 5)])
        tag = " types=%s" % "".join(t[0] for t in types)
        allc = all(t == "cartesian" for t in types)
        alls = all(t == "spherical" for t in types)
        if four:
            inst = Four(shells)
            exp = ap(C4, L, 4)
            cmpz("four-index mix" + tag, inst.construct_array_mix(types), exp, "A-four-mix")
            o.call()
            if allc:
                cmpz("four-index cartesian", inst.construct_array_cartesian(), exp, "A-four-cart")
                o.call()
            if alls:
                cmpz("four-index spherical", inst.construct_array_spherical(), exp, "A-four-sph")
                o.call()
            cmpz("four-index lincomb" + tag, inst.construct_array_lincomb(T, types), ap(exp, T, 4), "A-four-lincomb",
                 ap(np.abs(exp), np.abs(T), 4))
            o.call()
            continue
        for nm, cls, C, nax in (("one-index", One, C1, 1), ("two-index symmetric", TwoSym, Csym, 2),
                                ("two-index Hermitian", TwoHerm, Cherm, 2)):
            inst = cls(shells)
            exp = ap(C, L, nax)
            cmpz(nm + " mix" + tag, inst.construct_array_mix(types), exp, "A-%s-mix" % nm)
            o.call()
            if allc:
                cmpz(nm + " cartesian", inst.construct_array_cartesian(), exp, "A-%s-cart" % nm)
                o.call()
            if alls:
                cmpz(nm + " spherical", inst.construct_array_spherical(), exp, "A-%s-sph" % nm)
                o.call()
            cmpz(nm + " lincomb" + tag, inst.construct_array_lincomb(T, types), ap(exp, T, nax), "A-%s-lincomb" % nm,
                 ap(np.abs(exp), np.abs(T), nax))
            o.call()
        # asymmetric: second basis = reversed shell list (own labels) with the reversed type pattern
        sh2 = shells[::-1]
        types2 = types[::-1]
        y = np.concatenate([s_._lab2.ravel() for s_ in sh2])
        ncy = np.concatenate([s_.norm_cont.ravel() for s_ in sh2])
        Ca = ((x[:, None] + 2 * y[None, :] + np.outer(x, y)) * np.outer(nc, ncy))[..., None] * extra
        L2 = Lmat(types2, sh2)
        inst = TwoAsym(shells, sh2)
        exp = np.einsum("ia,jb,abe->ije", L, L2, Ca)
        cmpz("two-index asymmetric mix" + tag, inst.construct_array_mix(types, types2), exp, "A-asym-mix")
        o.call()
        if allc:
            cmpz("two-index asymmetric cartesian", inst.construct_array_cartesian(), exp, "A-asym-cart")
            o.call()
        if alls:
            cmpz("two-index asymmetric spherical", inst.construct_array_spherical(), exp, "A-asym-sph")
            o.call()
        T2 = np.array([hvec("A-T2%d" % r, L2.shape[0], -1, 1) for r in range(2)])
        expT = np.einsum("ia,jb,abe->ije", T, T2, exp)
        cmpz("two-index asymmetric lincomb" + tag, inst.construct_array_lincomb(T, T2, types, types2), expT, "A-asym-lincomb")
        o.call()
        cmpz("two-index asymmetric lincomb (first only)" + tag, inst.construct_array_lincomb(T, None, types, types2),
             np.einsum("ia,abe->ibe", T, exp), "A-asym-lincomb")
        o.call()
        cmpz("two-index asymmetric lincomb (second only)" + tag, inst.construct_array_lincomb(None, T2, types, types2),
             np.einsum("jb,abe->aje", T2, exp), "A-asym-lincomb")
        o.call()


# ------------------------------------------------------------------------------------------------
# part B
# ------------------------------------------------------------------------------------------------
def blockdiag(blocks):
    r = sum(b.shape[0] for b in blocks)
    c = sum(b.shape[1] for b in blocks)
    L = np.zeros((r, c))
    i = j = 0
    for b in blocks:
        L[i:i + b.shape[0], j:j + b.shape[1]] = b
        i += b.shape[0]
        j += b.shape[1]
    return L


def fixed_basis():
    return [RefShell(2, tuple(hvec("c09-fx0", 3, -1.5, 1.5)), (0.8, 2.3), [[0.6, 0.3], [0.5, -0.7]], "cartesian"),
            RefShell(1, tuple(hvec("c09-fx1", 3, -1.5, 1.5)), (1.1,), [[1.0]], "spherical")]


def flip_rewrites(st):
    """switch one Cartesian shell to spherical; L = I (+) I_M (x) C_shell (+) I"""
    if st.T is not None:
        return
    for i, sh in enumerate(st.shells):
        if sh.ctype != "cartesian":
            continue
        new = list(st.shells)
        new[i] = sh.with_(ctype="spherical")
        blocks = []
        for k, s in enumerate(st.shells):
            if k == i:
                blocks.append(np.kron(np.eye(s.M), sph_transform(s.l, s.comps, s.labels)))
            else:
                blocks.append(np.eye(s.nfunc))
        yield ("shell %d (l=%d) -> spherical" % (i, sh.l), st.with_(shells=new), blockdiag(blocks))


def transform_rewrites(st, tag):
    if st.T is not None:
        return
    n = nbasis(st.shells)
    for nm, rows in (("square", n), ("wide", max(1, n - 2)), ("tall", n + 2)):
        T = np.array([hvec("%s-%s-%d" % (tag, nm, r), n, -1, 1) for r in range(rows)])
        yield ("attach %s T" % nm, st.with_(T=T), T)
    # value classes of the transformation: all entries 0 or 1 with several ones per row (sums of functions, not a
    # selection); entries far above 1
    B = (np.array([hvec("%s-bin-%d" % (tag, r), n, 0, 1) for r in range(max(1, n - 1))]) > 0.55).astype(float)
    for r in range(B.shape[0]):
        B[r, r % n] = 1.0
        B[r, (r + 2) % n] = 1.0 if n > 2 else B[r, (r + 2) % n]
    yield ("attach 0/1-valued T", st.with_(T=B), B)
    G = 40.0 * np.array([hvec("%s-big-%d" % (tag, r), n, -1, 1) for r in range(n)])
    yield ("attach T with entries up to 40", st.with_(T=G), G)
    # representations of the transformation argument: integer dtype (a selection / summation matrix written with
    # ints), Fortran-ordered memory
    Bi = np.zeros((n, n), dtype=int)
    for r in range(n):
        Bi[r, (r + 1) % n] = 1
        Bi[r, (r + 3) % n] = -2 if r % 2 else 1
    yield ("attach integer-dtype T", st.with_(T=Bi), Bi.astype(float))
    F = np.asfortranarray(np.array([hvec("%s-f-%d" % (tag, r), n, -1, 1) for r in range(max(1, n - 1))]))
    yield ("attach Fortran-ordered T", st.with_(T=F), np.array(F))


def evaluate(cfg):
    gb()
    o = Obs(cfg)
    kind = cfg["kind"]
    quick = cfg.get("tier") == "quick"
    if kind in ("A2", "A4"):
        partA(o, cfg)
        return o
    if kind == "B-lattice":
        n = cfg["n"]
        cs = al.molecule_centers(n, tag="c09-mol")
        shells = [al.ladder_shell(cfg["start"] + i, cs[i], "cartesian", lmax=4 if n <= 2 else 3) for i in range(n)]
        env = default_env(shells, "c09")
        env["fixed_basis"] = fixed_basis()
        dq = density_quantities()
        if quick or n >= 3:
            for k in ("ehrenfest_hessian", "general_ked"):
                dq.pop(k)
        ex = Explorer(o, integral_quantities(), dq, tol=1e-10, eri_cap=(16 if quick else 30),
                      dens_every={1: 1, 2: 1, 3: 3, 4: 8}[n] if quick else {1: 1, 2: 1, 3: 2, 4: 4}[n])

        def rw(st):
            for r in flip_rewrites(st):
                yield r
            for r in transform_rewrites(st, "c09T"):
                yield r

        ex.bfs(System(shells, None, env), rw, depth=n + 1)
        return o
    # convention variants: 2-shell basis [variant shell, fixed partner]
    l = cfg["l"]
    cs = al.molecule_centers(2, tag="c09-conv")
    names = ["overlap", "kinetic", "point_charge", "moment", "momentum", "angular_momentum", "evaluate_basis",
             "evaluate_deriv_basis(2, 0, 1)", "overlap_asymmetric", "overlap_asymmetric_vs_fixed",
             "overlap_asymmetric_fixed_first"]
    full = (l == 2)  # complete enumeration of a large convention space: ERI only outside the quick tier
    iq = integral_quantities(names=names + (["eri_chemist"] if (l <= 2 and not (quick and full)) else []))
    dq = density_quantities(names=["density", "density_gradient", "electrostatic_potential", "stress_tensor"])
    comps = cart_comps(l)
    labs = sph_labels(l)
    ncart = len(comps)
    if kind == "B-cart-conv":
        if l <= 2:
            perms = list(itertools.permutations(range(ncart)))
            if cfg["part"] is not None:
                perms = [p for p in perms if p[0] == cfg["part"]]
        else:
            from .C10 import gen_perms
            perms = gen_perms(ncart)
        for ctype, ptype in (("cartesian", "spherical"), ("spherical", "spherical"), ("spherical", "cartesian"),
                             ("cartesian", "cartesian")):
            if len(perms) > 30 and ctype != ptype and quick:
                continue  # quick tier, complete permutation sets: the two uniform type patterns
            base = al.shell(l, cs[0], 2, 2, ctype, pat=1)
            partner = al.shell(1, cs[1], 1, 1, ptype, pat=1)
            env = default_env([base, partner], "c09conv")
            env["fixed_basis"] = fixed_basis()
            ex = Explorer(o, iq, dq, tol=1e-10, eri_cap=40, dens_every=max(1, len(perms) // 6))
            seed = System([base, partner], None, env)
            for p in perms:
                if list(p) == list(range(ncart)):
                    continue
                var = base.with_(cart_order=[comps[i] for i in p])
                if ctype == "cartesian":
                    P = np.zeros((ncart, ncart))
                    for r, i in enumerate(p):
                        P[r, i] = 1.0
                    L = blockdiag([np.kron(np.eye(base.M), P), np.eye(partner.nfunc)])
                else:
                    L = np.eye(base.nfunc + partner.nfunc)
                ex.check_edge(seed, System([var, partner], None, env), L, "cart order %s (%s shell)" % (list(p), ctype))
            o.notes["bfs_states"] = o.notes.get("bfs_states", 0) + ex.states
            o.notes["bfs_edges"] = o.notes.get("bfs_edges", 0) + ex.edges
        return o
    # spherical label order / sign conventions
    nsph = 2 * l + 1
    if l <= 2:
        if cfg["part"] is None:
            perms = list(itertools.permutations(range(nsph)))
        else:
            rest = [i for i in range(nsph) if i != cfg["part"]]
            perms = [[cfg["part"]] + list(p) for p in itertools.permutations(rest)]
        signs = list(itertools.product([1, -1], repeat=nsph))
        if quick and l == 2:
            signs = [s for i, s in enumerate(signs) if i % 4 == cfg["part"] % 4]
    else:
        from .C10 import gen_perms
        perms = gen_perms(nsph)
        signs = [[1] * nsph, [-1] * nsph] + [[-1 if i == j else 1 for i in range(nsph)] for j in range(0, nsph, 2)]
    base = al.shell(l, cs[0], 2, 2, "spherical", pat=1)
    n_edge = 0
    # the partner is Cartesian (mixed-type assembly path) or spherical (all-spherical path), alternating per edge
    partners = [al.shell(1, cs[1], 1, 1, "cartesian", pat=1), al.shell(1, cs[1], 1, 1, "spherical", pat=1)]
    exs = []
    for partner in partners:
        env = default_env([base, partner], "c09conv")
        env["fixed_basis"] = fixed_basis()
        exs.append((Explorer(o, iq, dq, tol=1e-10, eri_cap=40, dens_every=max(1, len(perms) * len(signs) // 12)),
                    System([base, partner], None, env), partner, env))
    for p in perms:
        for s in signs:
            if list(p) == list(range(nsph)) and all(v == 1 for v in s):
                continue
            n_edge += 1
            both = (not quick) or l != 2
            for k, (ex, seed, partner, env) in enumerate(exs):
                if not both and k != n_edge % 2:
                    continue
                var = base.with_(sph_order=[("-" if sg < 0 else "") + labs[i] for i, sg in zip(p, s)])
                P = np.zeros((nsph, nsph))
                for r, (i, sg) in enumerate(zip(p, s)):
                    P[r, i] = sg
                L = blockdiag([np.kron(np.eye(base.M), P), np.eye(partner.nfunc)])
                ex.check_edge(seed, System([var, partner], None, env), L, "sph convention (partner %s)" % partner.ctype)
    for ex, _, _, _ in exs:
        o.notes["bfs_states"] = o.notes.get("bfs_states", 0) + ex.states
        o.notes["bfs_edges"] = o.notes.get("bfs_edges", 0) + ex.edges
    return o


def cost(cfg):
    k = cfg["kind"]
    if k == "B-lattice":
        return 100 + 10 * cfg["n"]
    if k in ("B-cart-conv", "B-sph-conv"):
        return 90 if cfg["l"] == 2 else 20
    return sum((l + 1) * (l + 2) * m for l, m in cfg["shapes"]) * (0.02 if k == "A2" else 0.05) * len(cfg["shapes"])
