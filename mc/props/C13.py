"""C13  contractions behave as the linear combinations they denote (engine E2)."""
import itertools

import numpy as np

from .. import alphabet as al
from ..core import Obs, gb, gshell, hvec
from ..ref.shells import RefShell, nbasis
from ..rewrite import Explorer, System, default_env, density_quantities, integral_quantities, post_bfs

ID = "C13"
ENGINE = "E2 rewrite-graph BFS"
RULE = ("seeds = a subject shell (l 0..4, K 1..4 primitives, M 1..4 columns, Cartesian or spherical) embedded in a "
        "2-shell basis with a fixed partner; transitions = split the generalized shell into M single-column shells; "
        "permute its primitives (all K! at depth 0, reversal deeper); split primitive i into two with coefficient shares "
        "(0.3, 0.7) and (1.7, -0.7); multiply column j by s in {1e-6, 0.5, 3, 1e6, -1, -1e-6, -1e6}; BFS to depth 3 (2 in "
        "the quick tier) with canonical de-duplication, so laws are also checked from rewritten states. Law on every "
        "edge and every public quantity: outputs identical (sign flip of that function for negative s). Block level: "
        "construct_array_contraction is linear in each shell's coefficient matrix, B(c1 + lam c2) = B(c1) + lam B(c2).")
ASSUMPTIONS = ["tolerance 1e-10 of the condition scale (1e-9 on edges that scale a column by 1e+-6; ERI 2e-6 Schwarz)"]
CHUNK = 1
post = post_bfs
SCALES = [1e-6, 0.5, 3.0, 1e6, -1.0, -1e-6, -1e6]


def km_list(tier):
    if tier == "quick":
        return [(1, 1), (2, 3), (3, 2), (4, 4)]
    return [(K, M) for K in range(1, 5) for M in range(1, 5)]


def bounds(tier):
    return {"l": "0..4", "K,M": km_list(tier), "subject_type": 2, "depth": 2 if tier == "quick" else "3 for K*M <= 2 and l <= 2, else 2",
            "primitive_permutations": "all K! at depth 0", "scale_factors": SCALES,
            "linearity": "every integral/evaluation block class, each shell slot"}


def configs(tier, seed):
    out = []
    for l in range(5):
        for (K, M) in km_list(tier):
            for t in ("cartesian", "spherical"):
                if tier == "quick" and (l + K + (t == "spherical")) % 2:
                    continue
                if K * M >= 6 or (tier != "quick" and K * M <= 2 and l <= 2):  # large alphabets, and the depth-3 searches
                    # shard the breadth-first search by the class of the first rewrite (same state set overall)
                    for br in range(4):
                        out.append({"kind": "bfs", "l": l, "K": K, "M": M, "t": t, "tier": tier, "branch": br})
                else:
                    out.append({"kind": "bfs", "l": l, "K": K, "M": M, "t": t, "tier": tier, "branch": None})
    for l in range(5):
        for (K, M) in ([(2, 2), (3, 1)] if tier == "quick" else [(1, 1), (2, 2), (3, 1), (4, 3), (2, 4)]):
            out.append({"kind": "linear", "l": l, "K": K, "M": M})
    # wide-range contracted s shell (tight core + valence primitives) next to a diffuse d / f shell: the repulsion
    # integrals must not depend on the order in which the primitives are listed
    for lp in (2, 3):
        for first in ("s", "x"):
            out.append({"kind": "ill-order", "lp": lp, "first": first})
    return out


def subject(cfg):
    l, K, M = cfg["l"], cfg["K"], cfg["M"]
    exps = [(0.23, 1.1, 4.7, 19.0)[k] for k in range(K)]
    co = np.array([[0.62, -0.31, 0.17, 0.45], [0.48, 0.57, -0.66, 0.23], [-0.29, 0.41, 0.52, -0.71],
                   [0.35, 0.26, 0.33, 0.58]])[:K, :M]
    return RefShell(l, tuple(hvec("c13-a", 3, -0.6, 0.6)), exps, co, cfg.get("t", "cartesian"))


def partner():
    return RefShell(1, tuple(hvec("c13-b", 3, -1.2, 1.2)), (0.8, 2.9), [[0.7, 0.2], [0.4, -0.9]], "spherical")


def make_rewrites(depth_of, branch=None):
    def rewrites(st):
        dpt = depth_of.get(st.key(), 0)
        sh = st.shells[0]
        rest = st.shells[1:]
        n_rest = sum(s.nfunc for s in rest)
        I = np.eye(sh.nfunc + n_rest)
        out = []
        co = np.array(sh.coeffs)
        ex = list(sh.exps)
        K, M = co.shape
        def on(cls):
            return dpt > 0 or branch is None or branch == cls

        # split generalized shell
        if M > 1 and on(0):
            parts = [sh.with_(coeffs=co[:, m:m + 1]) for m in range(M)]
            out.append(("split generalized shell into %d" % M, st.with_(shells=parts + rest), I, None))
        # permute primitives
        perms = list(itertools.permutations(range(K))) if dpt == 0 else [tuple(range(K))[::-1]]
        for p in perms:
            if list(p) == list(range(K)) or not on(1):
                continue
            new = sh.with_(exps=[ex[i] for i in p], coeffs=co[list(p)])
            out.append(("permute primitives %s" % (list(p),), st.with_(shells=[new] + rest), I, None))
        # split a primitive
        if K < 6 and on(2):
            for i in (range(K) if dpt == 0 else [0]):
                for (u, v) in (((0.3, 0.7), (1.7, -0.7)) if dpt == 0 else ((0.3, 0.7),)):
                    nco = np.vstack([co[:i], u * co[i:i + 1], v * co[i:i + 1], co[i + 1:]])
                    nex = ex[:i] + [ex[i], ex[i]] + ex[i + 1:]
                    new = sh.with_(exps=nex, coeffs=nco)
                    out.append(("split primitive %d shares %s" % (i, (u, v)), st.with_(shells=[new] + rest), I, None))
        # scale a column
        for j in (range(M) if dpt == 0 else [M - 1]):
            if not on(3):
                break
            for s in (SCALES if dpt == 0 else [-1.0, 1e6]):
                nco = co.copy()
                nco[:, j] *= s
                new = sh.with_(coeffs=nco)
                L = I.copy()
                if s < 0:
                    w = sh.ncomp
                    L[j * w:(j + 1) * w, j * w:(j + 1) * w] *= -1
                out.append(("scale column %d by %g" % (j, s), st.with_(shells=[new] + rest), L, None))
        # record depth of children
        for item in out:
            depth_of.setdefault(item[1].key(), dpt + 1)
        return out
    return rewrites


def ill_order(o, cfg):
    from gbasis.integrals.electron_repulsion import electron_repulsion_integral
    from gbasis.integrals.overlap import overlap_integral
    from ..core import gshell

    ex = (8000.0, 1200.0, 30.0, 0.4)
    co = (0.05, 0.2, 0.5, 0.4)
    cs = [tuple(hvec("c13-ill%d" % i, 3, -1.2, 1.2)) for i in range(2)]
    ref = None
    for perm, px in itertools.product(itertools.permutations(range(4)), ((0, 1), (1, 0))):
        x = RefShell(cfg["lp"], cs[1], [(0.9, 0.12)[i] for i in px], [[(0.6, 0.5)[i]] for i in px], "cartesian")
        s = RefShell(0, cs[0], [ex[i] for i in perm], [[co[i]] for i in perm], "cartesian")
        shells = [s, x] if cfg["first"] == "s" else [x, s]
        g = [gshell(t) for t in shells]
        E = electron_repulsion_integral(g, notation="chemist")
        S = overlap_integral(g)
        o.call(2)
        if ref is None:
            ref = (E, S)
            d = np.sqrt(np.abs(np.einsum("abab->ab", E)))
            sc = d[:, :, None, None] * d[None, None, :, :]
            continue
        o.cmp("ERI independent of primitive order %s %s" % (perm, px), E, ref[0], 2e-6, sc, key="eri-primitive-order")
        o.cmp("overlap independent of primitive order %s %s" % (perm, px), S, ref[1], 1e-12, 1.0, key="overlap-primitive-order")
    return o


def evaluate(cfg):
    gb()
    o = Obs(cfg)
    if cfg["kind"] == "ill-order":
        return ill_order(o, cfg)
    if cfg["kind"] == "bfs":
        quick = cfg.get("tier") == "quick"
        sh = subject(cfg)
        shells = [sh, partner()]
        env = default_env(shells, "c13")
        dq = density_quantities(names=["density", "density_gradient", "density_hessian", "posdef_ked",
                                       "electrostatic_potential", "stress_tensor", "ehrenfest_force"])
        # thorough: 400 searches; ERI up to 14 functions and density fields on every 20th edge keep the whole tier
        # near half an hour on 16 cores (eri_cap 20 / every 10th edge needed about 20 CPU-hours)
        ex = Explorer(o, integral_quantities(), dq, tol=1e-9, eri_cap=(12 if quick else 14),
                      dens_every=(25 if quick else 20))
        depth_of = {}
        seed = System(shells, None, env)
        depth_of[seed.key()] = 0
        # depth 3 for the smallest shells (K*M <= 2, l <= 2); the others stop at depth 2 (their depth-0 alphabet alone
        # has up to 61 rewrites; depth 3 for all 400 subjects, and then for K*M <= 4, did not finish in 20 / 15
        # CPU-hours)
        deep = (not quick) and cfg["K"] * cfg["M"] <= 2 and cfg["l"] <= 2
        ex.bfs(seed, make_rewrites(depth_of, cfg.get("branch")), depth=3 if deep else 2)
        return o
    # block-level linearity in the coefficient matrix of each shell slot
    from gbasis.evals.eval import Eval
    from gbasis.evals.eval_deriv import EvalDeriv
    from gbasis.integrals.angular_momentum import AngularMomentumIntegral
    from gbasis.integrals.electron_repulsion import ElectronRepulsionIntegral
    from gbasis.integrals.kinetic_energy import KineticEnergyIntegral
    from gbasis.integrals.moment import Moment
    from gbasis.integrals.momentum import MomentumIntegral
    from gbasis.integrals.overlap import Overlap
    from gbasis.integrals.point_charge import PointChargeIntegral

    sh = subject(cfg)
    K, M = sh.K, sh.M
    c1 = np.array(sh.coeffs)
    c2 = np.array([hvec("c13-c2-%d" % k, M, -1, 1) for k in range(K)])
    lam = -1.7
    s1, s2, s3 = sh, sh.with_(coeffs=c2), sh.with_(coeffs=c1 + lam * c2)
    p = partner()
    env = default_env([sh, p], "c13lin")
    g1, g2, g3, gp = gshell(s1), gshell(s2), gshell(s3), gshell(p)

    def lin(name, f):
        b1, b2, b3 = f(g1), f(g2), f(g3)
        o.call(3)
        sc = np.abs(b1) + abs(lam) * np.abs(b2) + 1e-3 * float(np.max(np.abs(b3)))
        o.cmp("linearity " + name, b3, b1 + lam * b2, 1e-11, sc, key="linear-" + name.split()[0])

    two = [("overlap", Overlap, {}), ("kinetic", KineticEnergyIntegral, {}),
           ("point_charge", PointChargeIntegral, {"points_coords": env["charge_coords"], "points_charge": env["charges"]}),
           ("moment", Moment, {"moment_coord": env["origin"], "moment_orders": env["orders"]}),
           ("momentum", MomentumIntegral, {}), ("angular_momentum", AngularMomentumIntegral, {})]
    for name, cls, kw in two:
        lin(name + " slot 1", lambda g: cls.construct_array_contraction(g, gp, **kw))
        lin(name + " slot 2", lambda g: cls.construct_array_contraction(gp, g, **kw))
    lin("eval", lambda g: Eval.construct_array_contraction(g, points=env["points"]))
    for od in ((1, 0, 2), (0, 2, 0)):
        lin("evalderiv general %s" % (od,), lambda g: EvalDeriv.construct_array_contraction(g, env["points"], np.array(od)))
    lin("evalderiv direct (0,2,1)", lambda g: EvalDeriv.construct_array_contraction(g, env["points"], np.array([0, 2, 1]), "direct"))
    if sh.l <= 3:
        q = RefShell(0, tuple(hvec("c13-q", 3, -1, 1)), (0.6,), [[1.0]], "cartesian")
        gq = gshell(q)
        for slot in range(4):
            def f(g, slot=slot):
                args = [gp, gq, gp, gq]
                args[slot] = g
                return ElectronRepulsionIntegral.construct_array_contraction(*args)
            lin("eri slot %d" % (slot + 1), f)
    return o


def cost(cfg):
    import math
    if cfg["kind"] != "bfs":
        return 0
    K, M = cfg["K"], cfg["M"]
    per = {None: math.factorial(K) + 2 * K + 7 * M, 0: 1, 1: math.factorial(K), 2: 2 * K, 3: 7 * M}[cfg.get("branch")]
    deep = cfg.get("tier") != "quick" and K * M <= 2 and cfg["l"] <= 2
    return per * (1 + M) * (cfg["l"] + 1) ** 2 * (8 if deep else 1)
