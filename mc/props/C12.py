"""C12  covariance under rigid motions of the whole system (engine E2)."""
import numpy as np

from .. import alphabet as al
from ..core import Obs, gb, hvec
from ..ref import rep
from ..ref.shells import nbasis
from ..rewrite import Explorer, System, _kw, density_quantities, integral_quantities, post_bfs

ID = "C12"
ENGINE = "E2 rewrite-graph BFS"
RULE = ("states = (basis, points, charges, moment origin) rigidly moved from a seed; transitions = r -> R r + d with R "
        "from ALL 48 signed axis permutations (complete finite group) and 3 seed-derived generic rotations (proper and "
        "improper), d from {0, generic ~1.5 bohr, generic 50 bohr}; plus translations by 1e3 and 1e4 bohr of a moderate-exponent seed (tolerance 1e-10 + 1000 eps |d| alpha_max, the conditioning of absolute coordinates); depth 2 (a motion applied to an already moved system "
        "must obey the same law). Laws per edge: function values at moved points = D(R) x values; integral arrays "
        "conjugated by the shell representation matrices D on every basis index; gradients/momentum/force rotate as "
        "vectors, Hessians/stress tensor as tensors, moments (all orders of total degree <= 2, about the moved origin) as "
        "symmetric tensors, angular momentum about the coordinate origin as an axial vector plus d x p; densities, "
        "Laplacian, kinetic densities and the electrostatic potential invariant. D from an independent polynomial "
        "substitution (Cartesian) and the reference harmonics (spherical).")
ASSUMPTIONS = ["tolerance 1e-10 of the condition scale (law applied to absolute values); ERI 2e-6 Schwarz"]
CHUNK = 1
post = post_bfs
ORD2 = [(0, 0, 0), (1, 0, 0), (0, 1, 0), (0, 0, 1), (2, 0, 0), (1, 1, 0), (1, 0, 1), (0, 2, 0), (0, 1, 1), (0, 0, 2)]
SEEDS = [[(1, "cartesian"), (4, "spherical")], [(2, "spherical"), (0, "cartesian")], [(3, "cartesian"), (5, "cartesian")],
         [(0, "spherical"), (2, "cartesian"), (1, "spherical")], [(4, "cartesian"), (3, "spherical")],
         [(6, "spherical"), (7, "cartesian")]]


def bounds(tier):
    return {"seeds": len(SEEDS) if tier != "quick" else 2, "group_elements": 48, "generic_rotations": 3,
            "translations": ["0", "generic", "50 bohr"], "very_far_translations": "1e3 and 1e4 bohr on a moderate-exponent seed (conditioning-limited tolerance)",
            "depth1": "48 x 3 + 3 x 3 = 153 motions" if tier != "quick" else "48 x 1 (translation class cycling) + 3",
            "depth2": "5 motions from every depth-1 state" if tier != "quick" else "5 motions from 6 depth-1 states"}


def configs(tier, seed):
    out = [{"seed": -1, "shard": 0, "tier": tier, "kind": "veryfar"},
           {"seed": -2, "shard": 0, "tier": tier, "kind": "f2rep"}]  # representative of the recorded finding F2
    for si in (range(len(SEEDS)) if tier != "quick" else [4, 3]):  # quick: g(cart)+f(sph); s+d+p
        # shard the group over workers: 6 shards of 8 elements
        for shard in range(6):
            out.append({"seed": si, "shard": shard, "tier": tier})
    return out


def cost(cfg):
    return 10 + cfg["seed"]


def veryfar(o, cfg):
    """translations by 1e3 and 1e4 bohr (with one rotation) of a seed whose exponents are <= 3"""
    from ..ref.shells import RefShell

    cs = al.molecule_centers(3, tag="c12-far")
    shells = [RefShell(1, cs[0], (0.5, 2.2), [[0.6, -0.3], [0.5, 0.8]], "spherical"),
              RefShell(2, cs[1], (0.9,), [[1.0]], "cartesian"), RefShell(0, cs[2], (3.0, 0.4), [[0.3], [0.7]], "cartesian")]
    c0 = np.array(cs[0])
    env = {"points": np.array([c0 + np.array([0.0, 0.3, -0.2]), c0 + np.array([0.05, 0.0, 0.0])]
                              + [np.array(hvec("c12f-pt%d" % i, 3, -1.5, 1.5)) for i in range(3)]),
           "charge_coords": np.array([c0, np.array(cs[1]), np.array(hvec("c12f-q", 3, -2, 2))]),
           "charges": np.array([1.0, 6.0, -2.0]), "origin": np.array(hvec("c12f-o", 3, -1, 1)), "orders": np.array(ORD2)}
    iq, dq = quantities()
    for k in ("eri_chemist",):
        iq.pop(k)
    amax = 3.0
    seed = System(shells, None, env)
    u = np.array(hvec("c12f-u", 3, 0.3, 1.0)) * np.array([1, -1, 1])
    u /= np.linalg.norm(u)
    R0 = rep.signed_permutations()[9]
    for dist in (1.0e3, 1.0e4):
        for R in (np.eye(3), R0):
            d = dist * u
            tol = 1e-10 + 1000 * np.finfo(float).eps * dist * amax
            ex = Explorer(o, iq, dq, tol=tol, eri_cap=0, dens_every=1)
            ex.dq_tol = tol
            nxt = move(seed, R, d)
            ex.check_edge(seed, nxt, rep.basis_rep(seed.shells, R), "translation by %g bohr" % dist, laws(R, d, reach(nxt)))
            o.notes["bfs_states"] = o.notes.get("bfs_states", 0) + ex.states
            o.notes["bfs_edges"] = o.notes.get("bfs_edges", 0) + ex.edges
    return o


def moment_rep(R):
    P = np.zeros((10, 10))
    P[0, 0] = 1.0
    P[1:4, 1:4] = rep.monomial_rep(R, ORD2[1:4])
    P[4:, 4:] = rep.monomial_rep(R, ORD2[4:])
    return P


def quantities():
    gb()
    from gbasis.evals.eval_deriv import evaluate_deriv_basis

    iq = integral_quantities(names=["overlap", "kinetic", "point_charge", "nuclear", "moment", "momentum",
                                    "angular_momentum", "eri_chemist", "evaluate_basis"])

    def grad(g, e, T):
        return np.stack([evaluate_deriv_basis(g, e["points"], np.eye(3, dtype=int)[i], **_kw(T)) for i in range(3)], axis=-1)

    def hess(g, e, T, dt="general"):
        H = np.zeros((sum(1 for _ in range(1)),))
        out = None
        for i in range(3):
            for j in range(i, 3):
                o = np.zeros(3, dtype=int)
                o[i] += 1
                o[j] += 1
                v = evaluate_deriv_basis(g, e["points"], o, deriv_type=dt, **_kw(T))
                if out is None:
                    out = np.zeros(v.shape + (3, 3))
                out[..., i, j] = v
                out[..., j, i] = v
        return out

    def third(g, e, T):
        # rank-3 tensor of third derivatives: the specialised back-end wherever it applies (no axis differentiated
        # more than twice: mixed orders such as (1,2,0) and (1,1,1)), the general one for (3,0,0)-type entries
        out = None
        for i in range(3):
            for j in range(3):
                for k in range(3):
                    o = np.zeros(3, dtype=int)
                    for a in (i, j, k):
                        o[a] += 1
                    dt = "general" if o.max() > 2 else "direct"
                    v = evaluate_deriv_basis(g, e["points"], o, deriv_type=dt, **_kw(T))
                    if out is None:
                        out = np.zeros(v.shape + (3, 3, 3))
                    out[..., i, j, k] = v
        return out

    iq["third_basis_direct"] = (third, (0,))
    iq["grad_basis"] = (grad, (0,))
    iq["hess_basis"] = (hess, (0,))
    iq["hess_basis_direct"] = (lambda g, e, T: hess(g, e, T, "direct"), (0,))
    dq = density_quantities(names=["density", "density_gradient", "density_laplacian", "density_hessian", "posdef_ked",
                                   "general_ked", "electrostatic_potential", "stress_tensor", "ehrenfest_force",
                                   "ehrenfest_hessian"])
    return iq, dq


def move(st, R, d):
    R = np.asarray(R, dtype=float)
    d = np.asarray(d, dtype=float)
    shells = [s.with_(center=tuple(R @ np.array(s.center) + d)) for s in st.shells]
    env = dict(st.env)
    for k in ("points", "charge_coords"):
        env[k] = env[k] @ R.T + d
    env["origin"] = R @ env["origin"] + d
    return st.with_(shells=shells, env=env)


def laws(R, d, reach=1.0):
    """reach: largest distance of a centre of the moved system from the coordinate origin."""
    R = np.asarray(R, dtype=float)
    d = np.asarray(d, dtype=float)
    aR = np.abs(R)
    det = float(np.linalg.det(R))
    Pm = moment_rep(R)

    def vec(x, _=None):
        return np.einsum("ij,...j->...i", R, x)

    def vec_abs(x, _=None):
        return np.einsum("ij,...j->...i", aR, x)

    def ten(x, _=None):
        return np.einsum("ia,jb,...ab->...ij", R, R, x)

    def ten_abs(x, _=None):
        return np.einsum("ia,jb,...ab->...ij", aR, aR, x)

    def ten3(x, _=None):
        return np.einsum("ia,jb,kc,...abc->...ijk", R, R, R, x)

    def ten3_abs(x, _=None):
        return np.einsum("ia,jb,kc,...abc->...ijk", aR, aR, aR, x)

    def angmom(Lp, allp):
        p = vec(allp["momentum"])
        return det * vec(Lp) + np.cross(np.broadcast_to(d, p.shape), p)

    def angmom_abs(La, alla):
        p = vec_abs(alla["momentum"])
        ad = np.abs(d)
        cr = np.stack([ad[1] * p[..., 2] + ad[2] * p[..., 1], ad[2] * p[..., 0] + ad[0] * p[..., 2],
                       ad[0] * p[..., 1] + ad[1] * p[..., 0]], axis=-1)
        return vec_abs(La) + cr

    def pscale(allp):
        # Cauchy-Schwarz scale of <a|grad|b>: (2 T_aa 2 T_bb)^(1/4)
        g = np.sqrt(2 * np.abs(np.diag(allp["kinetic"])))
        return np.sqrt(np.outer(g, g))[:, :, None]

    return {
        "momentum#scale": pscale,
        "angular_momentum#scale": lambda allp: (reach + 3.0) * pscale(allp),
        "moment": lambda x, _=None: np.einsum("tu,...u->...t", Pm, x),
        "moment#abs": lambda x, _=None: np.einsum("tu,...u->...t", np.abs(Pm), x),
        "momentum": vec, "momentum#abs": vec_abs,
        "angular_momentum": angmom, "angular_momentum#abs": angmom_abs,
        "grad_basis": vec, "grad_basis#abs": vec_abs,
        "hess_basis": ten, "hess_basis#abs": ten_abs,
        "hess_basis_direct": ten, "hess_basis_direct#abs": ten_abs,
        "third_basis_direct": ten3, "third_basis_direct#abs": ten3_abs,
        "density_gradient": vec, "density_hessian": ten, "stress_tensor": ten, "ehrenfest_force": vec,
        "ehrenfest_hessian": ten,
    }


def reach(st):
    return float(max(np.linalg.norm(np.array(s.center)) for s in st.shells))


def evaluate(cfg):
    gb()
    o = Obs(cfg)
    quick = cfg.get("tier") == "quick"
    if cfg.get("kind") == "veryfar":
        return veryfar(o, cfg)
    if cfg.get("kind") == "f2rep":
        from ..ref.shells import RefShell

        cs = al.molecule_centers(2, tag="c12-f2")
        shells = [RefShell(0, cs[0], (1.3,), [[1.0]], "cartesian"),
                  RefShell(2, cs[1], (0.02, 25.0, 2512.0), [[0.5], [0.4], [0.3]], "cartesian")]
        env = {"points": np.array([hvec("c12g-pt%d" % i, 3, -1.5, 1.5) for i in range(2)]),
               "charge_coords": np.array([cs[0]]), "charges": np.array([1.0]), "origin": np.zeros(3), "orders": np.array(ORD2)}
        iq = integral_quantities(names=["overlap", "kinetic", "eri_chemist"])
        ex = Explorer(o, iq, {}, tol=1e-10, eri_cap=30)
        seed = System(shells, None, env)
        for i in (12, 5):
            R = rep.signed_permutations()[i]
            ex.check_edge(seed, move(seed, R, np.zeros(3)), rep.basis_rep(seed.shells, R), "motion #%d" % i, laws(R, np.zeros(3)))
        o.notes["bfs_states"] = ex.states
        o.notes["bfs_edges"] = ex.edges
        return o
    spec = SEEDS[cfg["seed"]]
    cs = al.molecule_centers(len(spec), tag="c12-mol")
    shells = [al.ladder_shell(i, cs[k], t, lmax=4) for k, (i, t) in enumerate(spec)]
    # one seed carries shells with non-default component conventions (as wrappers of other programs declare them)
    if cfg["seed"] == 3:
        shells = [s.with_(sph_order=["c0", "-c1", "s1"]) if (s.l == 1 and s.ctype == "spherical") else
                  (s.with_(cart_order=[(0, 0, 2), (1, 1, 0), (2, 0, 0), (0, 2, 0), (1, 0, 1), (0, 1, 1)])
                   if s.l == 2 else s) for s in shells]
    c0 = np.array(cs[0])
    env = {
        "points": np.array([c0 + np.array([0.0, 0.4, -0.2])] + [np.array(hvec("c12-pt%d" % i, 3, -1.5, 1.5)) for i in range(3)]),
        "charge_coords": np.array([c0, np.array(hvec("c12-q1", 3, -2, 2)), np.array(hvec("c12-q2", 3, -2, 2))]),
        "charges": np.array([1.0, -2.5, 6.0]),
        "origin": np.array(hvec("c12-o", 3, -1, 1)),
        "orders": np.array(ORD2),
    }
    iq, dq = quantities()
    if quick:
        dq.pop("ehrenfest_hessian")
    ex = Explorer(o, iq, dq, tol=1e-10, eri_cap=(14 if quick else 24), dens_every=(6 if quick else 3))
    group = rep.signed_permutations()
    generic = [rep.rotation_from_seed("c12-rot0", hvec), rep.rotation_from_seed("c12-rot1", hvec, improper=True),
               rep.rotation_from_seed("c12-rot2", hvec)]
    dg = np.array(hvec("c12-dg", 3, -1.5, 1.5))
    v = np.array(hvec("c12-df", 3, 0.3, 1.0)) * np.array([1, -1, 1])
    dfar = 50.0 * v / np.linalg.norm(v)
    trans = [np.zeros(3), dg, dfar]
    gens = [group[8], group[17], group[1]]  # a cyclic permutation with sign, a transposition with sign, a reflection
    seed = System(shells, None, env)
    sh = cfg["shard"]
    elems = [(i, group[i]) for i in range(48) if i % 6 == sh]
    if sh < 3:
        elems.append((48 + sh, generic[sh]))
    depth1 = []
    for i, R in elems:
        for ti, d in enumerate(trans):
            if quick and ti != (i % 3):
                continue
            D = rep.basis_rep(seed.shells, R)
            nxt = move(seed, R, d)
            ex.check_edge(seed, nxt, D, "motion #%d t%d" % (i, ti), laws(R, d, reach(nxt)))
            depth1.append(nxt)
    # depth 2: motions applied to already moved systems
    second = [(g, np.zeros(3)) for g in gens] + [(np.eye(3), dg), (generic[0], dg)]
    src = depth1 if not quick else depth1[:1]
    for st in src:
        for R, d in second:
            D = rep.basis_rep(st.shells, R)
            nx2 = move(st, R, d)
            ex.check_edge(st, nx2, D, "second motion", laws(R, d, max(reach(st), reach(nx2))))
    o.notes["bfs_states"] = ex.states
    o.notes["bfs_edges"] = ex.edges
    return o
