"""C18  basis-set import preserves every shell and leaves its arguments intact (E1 parsers, E3 builder)."""
import copy
import itertools
import os
import tempfile

import numpy as np

from ..core import Obs, gb, hfloat, hvec
from ..ref import writer as W

ID = "C18"
ENGINE = "E1 product-space explorer + E3 call-history BFS"
RULE = ("parsers: product of element sets (1-5 elements, one- and two-letter symbols) x per-element shell lists "
        "(every letter s..k and SP shells occur; 1-8 shells) x K in {1,2,10} primitives x {1,2,6} columns; each abstract "
        "basis is written to NWChem and Gaussian94 text with EVERY combination of number style (E / D / plain, also "
        "mixed between exponents and coefficients) x preamble class {none, one blank line, one comment line, two comment "
        "lines, format header, long header} x separator style x trailing END, parsed by the library and compared with "
        "the abstract basis (flattened list of (l, exponents, column) per element in file order). builder: "
        "make_contractions over molecules of 1-5 atoms with repeats and coord_types as four string spellings, list and "
        "tuple, explored as a call history on SHARED argument objects (BFS over call sequences to a fixpoint of the "
        "argument snapshot); from_pyscf on a stand-in Mole object. distinct = distinct (model, layout) files / states.")
ASSUMPTIONS = ["well-formed files only: upper-case E/D exponent letters, every number with a decimal point, consecutive "
               "Gaussian94 shells of one letter never have nearly-equal but different exponents"]
CHUNK = 1

ELEMSETS = [("H",), ("He", "C"), ("Cl", "H", "Kr"), ("C", "Cl", "He", "H", "Kr")]
SHELLPATS = [["S"], ["S", "SP"], ["S", "P", "D"], ["F", "G", "H"], ["I", "K", "S"], ["S", "S", "SP", "P", "D", "F", "G", "H"]]
KS = [1, 2, 10]
NCOLS = [1, 2, 6]
STYLES = [("E", "E"), ("D", "D"), ("plain", "plain"), ("E", "D"), ("plain", "E")]
SEPS = ["none", "comment", "blank"]


def bounds(tier):
    return {"element_sets": len(ELEMSETS), "shell_patterns": len(SHELLPATS), "K": KS, "columns": NCOLS,
            "number_styles": len(STYLES), "preambles": W.PREAMBLES, "separators": SEPS, "trailing_end": 2, "formats": 2, "interior_lines_both_formats": ["comment", "blank"],
            "files_per_model": len(STYLES) * len(W.PREAMBLES) * len(SEPS) * 2 * 2,
            "models": "all %d" % (len(ELEMSETS) * len(SHELLPATS) * 9) if tier != "quick" else "Latin-square third"}


def configs(tier, seed):
    out = []
    for ei in range(len(ELEMSETS)):
        for si in range(len(SHELLPATS)):
            for ki in range(3):
                for ci in range(3):
                    if tier == "quick" and (ei + si + ki + ci) % 3:
                        continue
                    out.append({"kind": "files", "elems": ei, "shells": si, "K": KS[ki], "ncol": NCOLS[ci]})
    for fmt in ("nwchem", "gbs"):
        out.append({"kind": "filehistory", "fmt": fmt, "depth": 4 if tier == "quick" else 5})
    for mi in range(6):
        out.append({"kind": "builder", "mol": mi})
    for cart in (True, False):
        out.append({"kind": "pyscf", "cart": cart})
    return out


def cost(cfg):
    if cfg["kind"] == "filehistory":
        return 50
    if cfg["kind"] != "files":
        return 1
    return len(ELEMSETS[cfg["elems"]]) * len(SHELLPATS[cfg["shells"]]) * cfg["K"] * cfg["ncol"]


def abstract_basis(cfg, es, cs):
    """model with numbers as strings in styles (es, cs)"""
    basis = []
    for a, elem in enumerate(ELEMSETS[cfg["elems"]]):
        pat = SHELLPATS[(cfg["shells"] + a) % len(SHELLPATS)] if a else SHELLPATS[cfg["shells"]]
        shells = []
        for j, letters in enumerate(pat):
            K = cfg["K"] if (j + a) % 2 == 0 else max(1, cfg["K"] // 2)
            ncol = 2 if letters == "SP" else cfg["ncol"]
            exps = [W.fmt_number(0.031 * (1 + 0.17 * j + 0.4 * a) * 3.3 ** (K - 1 - k), es) for k in range(K)]
            rows = []
            for k in range(K):
                row = []
                for c in range(ncol):
                    v = hfloat("coef-%d-%d-%d-%d" % (a, j, k, c), 0.05, 1.2, sd=0)
                    if (a + j + k + c) % 3 == 1:
                        v = -v
                    row.append(W.fmt_number(v, cs))
                rows.append(row)
            shells.append((letters, exps, rows))
        basis.append((elem, shells))
    return basis


def flatten_parsed(parsed):
    out = {}
    for elem, lst in parsed.items():
        fl = out.setdefault(elem, [])
        for item in lst:
            l, exps, co = item
            co = np.asarray(co, dtype=float)
            if co.ndim == 1:
                co = co[:, None]
            for c in range(co.shape[1]):
                fl.append((int(l), tuple(float(x) for x in np.asarray(exps).ravel()), tuple(float(x) for x in co[:, c])))
    return out


def check_parse(o, name, parser, text, model, key):
    fd, path = tempfile.mkstemp(suffix=".basis", prefix="c18-")
    try:
        with os.fdopen(fd, "w") as f:
            f.write(text)
        try:
            parsed = parser(path)
            o.call()
        except Exception as e:
            o.call()
            o.check(name, False, detail="%s: %s" % (type(e).__name__, str(e)[:100]), key=key + "-exception")
            return None
    finally:
        os.unlink(path)
    flat = flatten_parsed(parsed)
    ok = (list(flat.keys()) == list(model.keys())) and all(flat[k] == model[k] for k in model)
    detail = None
    if not ok:
        detail = {"elements_parsed": list(flat.keys()), "elements_model": list(model.keys()),
                  "n_columns_parsed": {k: len(v) for k, v in flat.items()},
                  "n_columns_model": {k: len(v) for k, v in model.items()}}
    o.check(name, ok, detail=detail, key=key, token=(key, hash(text) & 0xffffffff))
    return parsed


def evaluate(cfg):
    gb()
    from gbasis import parsers

    o = Obs(cfg)
    if cfg["kind"] == "files":
        for es, cs in STYLES:
            basis = abstract_basis(cfg, es, cs)
            model = W.model_columns(basis)
            for pre in W.PREAMBLES:
                for sep in SEPS:
                    for end in (True, False):
                        lay = "%s/%s pre=%s sep=%s end=%s" % (es, cs, pre, sep, end)
                        check_parse(o, "parse_nwchem " + lay, parsers.parse_nwchem, W.write_nwchem(basis, pre, sep, end),
                                    model, "nwchem-pre-%s" % pre)
                        check_parse(o, "parse_gbs " + lay, parsers.parse_gbs, W.write_gbs(basis, pre, sep, end),
                                    model, "gbs-pre-%s" % pre)
            for interior in ("comment", "blank"):
                for pre in ("header", "none"):
                    check_parse(o, "parse_nwchem %s/%s pre=%s interior %s lines" % (es, cs, pre, interior),
                                parsers.parse_nwchem, W.write_nwchem(basis, pre, "comment", True, interior=interior),
                                model, "nwchem-interior-%s" % interior)
                    check_parse(o, "parse_gbs %s/%s pre=%s interior %s lines" % (es, cs, pre, interior),
                                parsers.parse_gbs, W.write_gbs(basis, pre, "comment", True, interior=interior),
                                model, "gbs-interior-%s" % interior)
        return o
    if cfg["kind"] == "filehistory":
        return filehistory(o, cfg)
    if cfg["kind"] == "builder":
        return builder(o, cfg)
    return pyscf(o, cfg)


# ------------------------------------------------------------------------------------------------
def filehistory(o, cfg):
    """All operation sequences up to the depth bound over {write basis A, write basis B, parse, caller edits the
    last parse result} on ONE path; every parse must return exactly what the file contains at that moment."""
    from gbasis import parsers

    parser = parsers.parse_nwchem if cfg["fmt"] == "nwchem" else parsers.parse_gbs
    write = W.write_nwchem if cfg["fmt"] == "nwchem" else W.write_gbs
    A = abstract_basis({"elems": 1, "shells": 1, "K": 2, "ncol": 2}, "E", "E")
    B = abstract_basis({"elems": 2, "shells": 2, "K": 1, "ncol": 1}, "D", "plain")
    texts = {"A": write(A, "header", "comment", True), "B": write(B, "comment2", "none", False)}
    models = {"A": W.model_columns(A), "B": W.model_columns(B)}
    ops = ["writeA", "writeB", "parse", "edit"]
    nseq = 0
    nparse = 0
    for depth in range(1, cfg["depth"] + 1):
        for seq in itertools.product(ops, repeat=depth):
            if "parse" not in seq or seq[-1] != "parse":
                continue
            nseq += 1
            fd, path = tempfile.mkstemp(suffix="." + cfg["fmt"], prefix="c18h-")
            os.close(fd)
            try:
                cur = "A"
                with open(path, "w") as f:
                    f.write(texts[cur])
                last = None
                for step, op in enumerate(seq):
                    if op in ("writeA", "writeB"):
                        cur = op[-1]
                        with open(path, "w") as f:
                            f.write(texts[cur])
                    elif op == "edit":
                        if last is not None:
                            for k in list(last):
                                last[k].clear()
                            last["Zz"] = [(0, np.array([1.0]), np.array([[1.0]]))]
                    else:
                        last = parser(path)
                        o.call()
                        nparse += 1
                        flat = flatten_parsed(last)
                        ok = list(flat.keys()) == list(models[cur].keys()) and all(flat[k] == models[cur][k] for k in models[cur])
                        o.check("parse after history %s returns the current file content" % (list(seq[:step + 1]),), ok,
                                key="file-history-" + cfg["fmt"], token=("fh", cfg["fmt"], seq[:step + 1]))
            finally:
                os.unlink(path)
    o.notes["bfs_states"] = o.notes.get("bfs_states", 0) + nseq
    o.notes["bfs_edges"] = o.notes.get("bfs_edges", 0) + nparse
    return o


MOLS = [(["H"],), (["C", "H"],), (["H", "C", "H"],), (["Kr", "He", "He", "Cl"],), (["C", "C", "Cl", "H", "He"],),
        (("He", "H", "He"),)]


def snapshot(x):
    if isinstance(x, np.ndarray):
        return ("nd", x.dtype.str, x.shape, x.tobytes())
    if isinstance(x, dict):
        return ("dict", tuple((k, snapshot(v)) for k, v in x.items()))
    if isinstance(x, (list, tuple)):
        return (type(x).__name__, tuple(snapshot(v) for v in x))
    return ("v", repr(x))


def builder(o, cfg):
    from gbasis import parsers
    from gbasis.contractions import GeneralizedContractionShell

    base = {"kind": "files", "elems": 3, "shells": 1, "K": 2, "ncol": 2}
    basis = abstract_basis(base, "E", "E")
    fd, path = tempfile.mkstemp(suffix=".nwchem", prefix="c18-")
    with os.fdopen(fd, "w") as f:
        f.write(W.write_nwchem(basis, "header", "comment", True))
    fd2, path2 = tempfile.mkstemp(suffix=".gbs", prefix="c18-")
    with os.fdopen(fd2, "w") as f:
        f.write(W.write_gbs(basis, "header", "comment", True))
    try:
        dicts = {"nwchem": parsers.parse_nwchem(path), "gbs": parsers.parse_gbs(path2)}
    finally:
        os.unlink(path)
        os.unlink(path2)
    atoms = MOLS[cfg["mol"]][0]
    coords = np.array([hvec("c18-atom%d" % i, 3, -3, 3) for i in range(len(atoms))])
    for src, bd in dicts.items():
        nsh = sum(len(bd[a]) for a in atoms)
        # aperiodic pattern (parity of the digits of pi) so that no shifted slice of it coincides with itself
        digits = "3141592653589793238462643383279502884197169399375105820974944592"
        pattern = ["spherical" if int(digits[i % len(digits)]) % 2 else "cartesian" for i in range(nsh)]
        short = [t[0] if t == "cartesian" else "p" for t in pattern]
        shared = {"list": list(pattern), "tuple": tuple(pattern), "shortlist": list(short)}
        variants = [("str cartesian", "cartesian"), ("str c", "c"), ("str spherical", "spherical"), ("str p", "p"),
                    ("list", shared["list"]), ("tuple", shared["tuple"]), ("shortlist", shared["shortlist"])]
        world = {"basis_dict": bd, "atoms": atoms, "coords": coords, "shared": shared}
        snap0 = snapshot((bd, atoms, coords, shared))
        # E3: BFS over call sequences on the shared argument objects, state = argument snapshot
        seen = {snap0}
        frontier = [()]
        depth = 0
        states = 1
        edges = 0
        while frontier and depth < 3:
            nxt = []
            for hist in frontier:
                for vi, (vname, ct) in enumerate(variants):
                    # rebuild the world by replaying the history on fresh copies (live objects do not copy well)
                    w = copy.deepcopy(world)
                    vv = [("s", "cartesian"), ("s", "c"), ("s", "spherical"), ("s", "p"), ("o", "list"), ("o", "tuple"),
                          ("o", "shortlist")]

                    def arg(i, w=w):
                        kind, val = vv[i]
                        return val if kind == "s" else w["shared"][val]

                    bad = False
                    for h in hist:
                        try:
                            parsers.make_contractions(w["basis_dict"], w["atoms"], w["coords"], arg(h))
                        except Exception:
                            bad = True
                    before = snapshot((w["basis_dict"], w["atoms"], w["coords"], w["shared"]))
                    edges += 1
                    try:
                        res = parsers.make_contractions(w["basis_dict"], w["atoms"], w["coords"], arg(vi))
                        o.call()
                    except Exception as e:
                        o.call()
                        o.check("make_contractions(%s, coord_types=%s) after history %s accepted" % (src, vname, list(hist)), False,
                                detail="%s: %s" % (type(e).__name__, str(e)[:120]), key="builder-rejected-" + vname.split()[0])
                        res = None
                    after = snapshot((w["basis_dict"], w["atoms"], w["coords"], w["shared"]))
                    o.check("make_contractions leaves its arguments intact (%s, %s, history %s)" % (src, vname, list(hist)),
                            after == before, key="builder-mutates-" + vname.split()[0], token=("intact", src, vname, len(hist)))
                    if res is not None:
                        exp_types = {"str cartesian": ["cartesian"] * nsh, "str c": ["cartesian"] * nsh,
                                     "str spherical": ["spherical"] * nsh, "str p": ["spherical"] * nsh}.get(vname, pattern)
                        ok = isinstance(res, tuple) and len(res) == nsh
                        k = 0
                        if ok:
                            for ia, a in enumerate(w["atoms"]):
                                for (l, ex, co) in bd[a]:
                                    s = res[k]
                                    co2 = np.asarray(co, dtype=float)
                                    co2 = co2[:, None] if co2.ndim == 1 else co2
                                    ok = ok and isinstance(s, GeneralizedContractionShell) and s.angmom == l \
                                        and np.array_equal(s.coord, coords[ia]) and np.array_equal(s.exps, ex) \
                                        and np.array_equal(s.coeffs, co2) and s.coord_type == exp_types[k] \
                                        and s.icenter == ia
                                    k += 1
                        o.check("make_contractions result (%s, %s)" % (src, vname), ok, key="builder-result",
                                token=("res", src, vname, cfg["mol"]))
                    if after not in seen:
                        seen.add(after)
                        states += 1
                        nxt.append(hist + (vi,))
                    elif len(hist) < 1:
                        nxt.append(hist + (vi,))
            frontier = nxt
            depth += 1
        o.notes["bfs_states"] = o.notes.get("bfs_states", 0) + states
        o.notes["bfs_edges"] = o.notes.get("bfs_edges", 0) + edges
    return o


def pyscf(o, cfg):
    from gbasis.wrappers import from_pyscf

    class Mole:  # stand-in carrying pyscf's documented internal layout
        pass

    base = {"kind": "files", "elems": 2, "shells": 2, "K": 2, "ncol": 2}
    model = W.model_columns(abstract_basis(base, "E", "E"))
    mol = Mole()
    atoms = ["Cl", "H", "Cl", "Kr"]
    coords = [tuple(hvec("c18-py%d" % i, 3, -3, 3)) for i in range(len(atoms))]
    mol._atom = [(a, c) for a, c in zip(atoms, coords)]
    mol.cart = cfg["cart"]
    # pyscf groups generalized columns of one shell: [l, [exp, c1, c2, ...], ...]
    mol._basis = {}
    shells_model = {}
    for elem, cols in model.items():
        grouped = []
        for (l, ex, col) in cols:
            if grouped and grouped[-1][0] == l and grouped[-1][1] == ex:
                grouped[-1][2].append(col)
            else:
                grouped.append([l, ex, [col]])
        shells_model[elem] = grouped
        mol._basis[elem] = [[l] + [[e] + [c[k] for c in cols_] for k, e in enumerate(ex)] for l, ex, cols_ in grouped]
    snap = snapshot((mol._atom, mol._basis))
    res = from_pyscf(mol)
    o.call()
    o.check("from_pyscf leaves the molecule intact", snapshot((mol._atom, mol._basis)) == snap, key="pyscf-mutates")
    exp = []
    for a, c in zip(atoms, coords):
        for l, ex, cols_ in shells_model[a]:
            exp.append((l, c, ex, np.array(cols_).T))
    ok = isinstance(res, tuple) and len(res) == len(exp)
    if ok:
        for s, (l, c, ex, co) in zip(res, exp):
            ok = ok and s.angmom == l and np.array_equal(s.coord, np.array(c)) and np.array_equal(s.exps, np.array(ex)) \
                and np.array_equal(s.coeffs, co) and s.coord_type == ("cartesian" if cfg["cart"] else "spherical")
    o.check("from_pyscf preserves angular momentum, centres, exponents, coefficient columns and coordinate type", ok,
            key="pyscf-result", token=("pyscf", cfg["cart"]))

    class NotMole:
        _basis = {}

    o.raises("from_pyscf rejects a non-Mole object", lambda: from_pyscf(NotMole()), key="pyscf-accepts-anything")
    return o


def post(results, tier):
    st = sum(r.get("notes", {}).get("bfs_states", 0) for r in results)
    ed = sum(r.get("notes", {}).get("bfs_edges", 0) for r in results)
    return {"coverage": {"builder_history_states": st, "builder_history_edges": ed}}
