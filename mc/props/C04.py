"""C04  electron-repulsion integrals exact in both conventions (engine E1)."""
import itertools

import numpy as np

from .. import alphabet as al
from ..core import Obs, gb, gshell, hvec
from ..ref import coulomb
from ..ref.shells import RefShell, nbasis

ID = "C04"
ENGINE = "E1 product-space explorer"
RULE = ("all 256 quartets (l in 0..3)^4, each in its own orientation ((ab|cd) and (cd|ab) are different states), x "
        "geometry {general, coincident, collinear} x exponent assignment patterns of {lo, mid, hi} (tight bra / tight "
        "ket / split) x contraction patterns (K 1..3, M 1..2), observed at block level through "
        "ElectronRepulsionIntegral.construct_array_contraction; plus the fixed ill-conditioned list (contracted core "
        "s shells with exponents up to 1e5 against diffuse p/d/f shells in five placements of the tight pair); plus "
        "whole-basis electron_repulsion_integral for 2-4 shells, all type patterns, both notations. Element-wise "
        "comparison with the McMurchie-Davidson reference at 1e-6 of the Schwarz scale. Non-trivial = reference not "
        "identically zero.")
ASSUMPTIONS = ["tolerance 1e-6 * sqrt((ab|ab)(cd|cd)) element-wise, Schwarz factors from the reference"]
TOL = 1e-6
CHUNK = 1

EXPAT = [("hi", "hi", "lo", "lo"), ("lo", "lo", "hi", "hi"), ("hi", "lo", "hi", "lo"), ("mid", "hi", "lo", "mid"),
         ("lo", "mid", "mid", "hi"), ("mid", "mid", "mid", "mid"), ("hi", "hi", "hi", "hi")]
# thorough tier: every remaining assignment of {lo, hi} to the four shells (indices 7..)
EXPAT += [p_ for p_ in itertools.product(("lo", "hi"), repeat=4) if p_ not in EXPAT]


def levels(ls):
    return {"lo": 0.2, "mid": 1.1, "hi": 5.0} if 3 in ls else {"lo": 0.1, "mid": 1.3, "hi": 10.0}


def km_patterns(L, tier):
    """list of ((K,M) x 4)"""
    if tier == "quick":
        return [((1, 1),) * 4]
    if L <= 4:
        return [((1, 1),) * 4, ((2, 1), (1, 2), (3, 1), (1, 1)), ((3, 2), (2, 2), (1, 1), (2, 1)),
                ((1, 2), (3, 1), (2, 2), (3, 2))]
    if L <= 8:
        return [((1, 1),) * 4, ((2, 1), (1, 2), (1, 1), (2, 1)), ((1, 2), (2, 2), (2, 1), (1, 1)),
                ((1, 1), (2, 1), (3, 2), (1, 2))]
    return [((1, 1),) * 4, ((2, 1), (1, 1), (1, 2), (1, 1)), ((1, 1), (1, 2), (2, 1), (1, 1)),
            ((1, 2), (1, 1), (1, 1), (2, 1))]


BOYS_T = [12.0, 22.0, 27.0, 31.0, 45.0]


def centres(geom, rho=None):
    if geom.startswith("boys"):
        # pairs (a,b) on one centre, (c,d) on another, separated so that rho |P-Q|^2 = T for the first primitives
        T = float(geom[4:])
        A = np.array(hvec("eri-bA", 3, -0.5, 0.5))
        u = np.array(hvec("eri-bu", 3, 0.3, 1.0)) * np.array([1, -1, 1])
        u /= np.linalg.norm(u)
        C = A + u * np.sqrt(T / rho)
        return [tuple(A), tuple(A), tuple(C), tuple(C)]
    if geom == "coincident":
        c = tuple(hvec("eri-c", 3, -0.5, 0.5))
        return [c, c, c, c]
    if geom == "octa":
        # symmetric layout on dyadic coordinates: several pairs of centres differ by vectors whose components sum to
        # exactly zero, (0.5, -0.5, 0) and the like
        return [(0.5, 0.0, 0.0), (0.0, 0.5, 0.0), (0.0, 0.0, -0.5), (-0.5, 0.0, 0.0)]
    if geom == "nearfar":
        # four distinct centres within 1e-3 bohr of each other (ghost functions / displaced geometries), the group
        # about 60 bohr from the coordinate origin: distinct centres that a relative-tolerance test would confuse
        o = np.array(al.FAR_OFFSET)
        return [tuple(o + 3e-4 * np.array(hvec("eri-nf%d" % i, 3, -1.0, 1.0)) * (i > 0)) for i in range(4)]
    if geom == "collinear":
        o = np.array(hvec("eri-o", 3, -0.5, 0.5))
        d = np.array(hvec("eri-d", 3, 0.3, 1.0)) * np.array([1, -1, 1])
        return [tuple(o + t * d) for t in (0.0, 0.9, -0.7, 1.6)]
    return [tuple(hvec("eri-g%d" % i, 3, -1.1, 1.1)) for i in range(4)]


# fixed ill-conditioned list --------------------------------------------------------------------------------
TIGHT = [((8236.0, 1235.0, 280.8), (0.000531, 0.004108, 0.021087)),
         ((1.0e5, 1.5e4, 3.4e3), (0.0002, 0.0015, 0.008)),
         # the same kind of shell with its primitives listed in increasing order, and a wide-range contraction
         # (tight and valence primitives in one shell) in both orders: the order of the primitives must not matter
         ((3.4e3, 1.5e4, 1.0e5), (0.008, 0.0015, 0.0002)),
         ((1.0e4, 30.0, 0.4), (0.002, 0.1, 0.6)),
         ((0.4, 30.0, 1.0e4), (0.6, 0.1, 0.002))]
DIFF = {"p": (1, (0.12,), (1.0,)), "d": (2, (0.2,), (1.0,)), "f": (3, (0.3,), (1.0,)),
        "f2": (3, (0.12, 0.9), (0.5, 0.6))}  # f2: two primitives listed in increasing order
XY = [("f", "f"), ("d", "f"), ("d", "d"), ("p", "f"), ("f2", "f2")]
PLACE = ["bra", "ket", "split13", "split14", "split23"]


def ill_shells(ti, xy, place):
    cs = centres("general")
    ex, co = TIGHT[ti]
    lx, ax, cx = DIFF[xy[0]]
    ly, ay, cy = DIFF[xy[1]]

    def T(c):
        return RefShell(0, c, ex, [[v] for v in co], "cartesian")

    def X(c):
        return RefShell(lx, c, ax, [[v] for v in cx], "cartesian")

    def Y(c):
        return RefShell(ly, c, ay, [[v] for v in cy], "cartesian")

    # the two core shells sit on the same atom (two tight functions on different atoms do not overlap at all)
    if place == "bra":
        return [T(cs[0]), T(cs[0]), X(cs[2]), Y(cs[3])]
    if place == "ket":
        return [X(cs[0]), Y(cs[1]), T(cs[2]), T(cs[2])]
    if place == "split13":
        return [T(cs[0]), X(cs[1]), T(cs[0]), Y(cs[3])]
    if place == "split14":
        return [T(cs[0]), X(cs[1]), Y(cs[2]), T(cs[0])]
    return [X(cs[0]), T(cs[1]), T(cs[1]), Y(cs[3])]


# primitive-order family: the three primitives of one shell of the quartet listed in each of their 6 orders
ORDER_LS = [(0, 1, 1, 0), (2, 0, 1, 1), (1, 1, 0, 2)]
ORDER_EXPS = (0.31, 2.4, 17.0)
ORDER_COEF = (0.55, 0.4, 0.15)


def order_shells(cfg):
    cs = centres("general")
    perm = list(itertools.permutations(range(3)))[cfg["perm"]]
    shells = []
    for i in range(4):
        if i == cfg["pos"]:
            ex = [ORDER_EXPS[k] for k in perm]
            co = [[ORDER_COEF[k], (-0.3, 0.7, 0.45)[k]] for k in perm]
        else:
            K = 1 + (i + cfg["pos"]) % 2
            ex = [(0.9, 3.3, 0.25, 1.6)[i] * f for f in (1.0, 0.3)[:K]]
            co = al.coeffs(K, 1, rot=i)
        shells.append(RefShell(cfg["ls"][i], cs[i], ex, co, "cartesian"))
    return shells


def bounds(tier):
    return {"quartets": 256, "primitive_orders": "all 6 orders of a 3-primitive shell x 4 positions x %d quartet types" % len(ORDER_LS),
            "near_far_geometry": "every 4th quartet (quick) / all (thorough)", "geometries": "general + one Boys-ladder separation per quartet" if tier == "quick" else "general, coincident, collinear + 5 Boys-ladder separations (rho R^2 = 12..45)",
            "exponent_patterns": 2 if tier == "quick" else len(EXPAT) - 2, "boys_ladder_patterns": "all-mid" if tier == "quick" else "all-mid, all-hi",
            "contraction_patterns": 1 if tier == "quick" else 4, "ill_conditioned_quartets": len(TIGHT) * len(XY) * len(PLACE),
            "whole_bases": "2-4 shells, all type patterns, both notations"}


def configs(tier, seed):
    out = []
    for ti in range(len(TIGHT)):
        for xy in XY:
            for pl in PLACE:
                out.append({"kind": "ill", "tight": ti, "xy": list(xy), "place": pl})
    for i in range(len(ALIAS_LS)):
        out.append({"kind": "alias", "i": i})
    for ls in ORDER_LS:
        for pos in range(4):
            for perm in range(6):
                out.append({"kind": "order", "ls": list(ls), "pos": pos, "perm": perm})
    geoms = ["general"] if tier == "quick" else ["general", "coincident", "collinear", "nearfar", "octa"] + ["boys%g" % T for T in BOYS_T]
    for qi, ls in enumerate(itertools.product(range(4), repeat=4)):
        qg = list(geoms)
        if tier == "quick":
            if qi % 4 == 1:
                qg.append("nearfar")
            if qi % 4 == 3:
                qg.append("octa")
            qg.append("boys%g" % BOYS_T[qi % len(BOYS_T)])
            if sum(ls) >= 6 and "boys22" not in qg:
                qg.append("boys22")  # high Boys orders just above a typical switch-over argument
        for g in qg:
            for ep in ([0, 1, 5] if tier == "quick" else range(len(EXPAT))):
                for kp in range(len(km_patterns(sum(ls), tier))):
                    if g.startswith("boys") != (ep in (5, 6)):
                        continue  # patterns 5, 6 (all mid / all hi: large rho, so high Boys orders carry weight) <-> Boys ladder
                    if g in ("nearfar", "octa") and tier == "quick" and ep != 0:
                        continue
                    if g.startswith("boys") and (kp != 0 or (tier == "quick" and ep != 5)):
                        continue
                    out.append({"kind": "quartet", "ls": list(ls), "geom": g, "ep": ep, "kp": kp, "tier": tier})
    # whole bases
    specs = [(2, 0), (3, 0), (2, 3)] if tier == "quick" else [(2, 0), (2, 1), (3, 0), (3, 1), (4, 0), (2, 3)]  # (2,3): generalized p + f
    for n, st in specs:
        for tp in al.type_patterns(n):
            out.append({"kind": "basis", "n": n, "start": st, "types": list(tp)})
    return out


BASIS_LADDER = [(0, 2, 2), (1, 1, 1), (2, 2, 1), (1, 2, 2), (3, 1, 1), (0, 1, 1)]


ALIAS_LS = [(0, 1, 2, 1), (1, 0, 0, 2), (2, 2, 1, 0), (0, 0, 1, 1), (1, 2, 0, 3), (3, 1, 1, 0)]


def build(cfg):
    from .. import core

    core.ALIAS_POOL = {} if cfg["kind"] == "alias" else None
    if cfg["kind"] == "alias":
        # four shells of different angular momentum built on the same exponent and coefficient array objects
        cs = centres("general" if cfg["i"] % 2 else "coincident")
        return [RefShell(l, cs[i], (0.45, 2.6), [[0.7, -0.2], [0.4, 0.9]], "cartesian") for i, l in enumerate(ALIAS_LS[cfg["i"]])]
    if cfg["kind"] == "ill":
        return ill_shells(cfg["tight"], cfg["xy"], cfg["place"])
    if cfg["kind"] == "order":
        return order_shells(cfg)
    if cfg["kind"] == "quartet":
        ls = cfg["ls"]
        lev = levels(ls)
        e0s = [lev[EXPAT[cfg["ep"]][i]] for i in range(4)]
        p_, q_ = e0s[0] + e0s[1], e0s[2] + e0s[3]
        cs = centres(cfg["geom"], rho=p_ * q_ / (p_ + q_))
        km = km_patterns(sum(ls), cfg.get("tier", "thorough"))[cfg["kp"]]
        shells = []
        for i in range(4):
            K, M = km[i]
            e0 = lev[EXPAT[cfg["ep"]][i]]
            exps = [e0 * f for f in (1.0, 0.37, 2.3)[:K]]
            shells.append(RefShell(ls[i], cs[i], exps, al.coeffs(K, M, rot=i), "cartesian"))
        return shells
    cs = al.molecule_centers(cfg["n"], tag="eri-mol")
    shells = []
    for i in range(cfg["n"]):
        l, K, M = BASIS_LADDER[(cfg["start"] + i) % len(BASIS_LADDER)]
        exps = [(0.35, 1.7, 6.0)[(i + k) % 3] * (1 + 0.3 * k) for k in range(K)]
        shells.append(RefShell(l, cs[i], exps, al.coeffs(K, M, rot=i), cfg["types"][i]))
    return shells


def schwarz4(sa, sb, sc, sd):
    ab = np.sqrt(np.abs(np.einsum("pqrspqrs->pqrs", coulomb.eri_block(sa, sb, sa, sb, cart8=True))))
    cd = np.sqrt(np.abs(np.einsum("pqrspqrs->pqrs", coulomb.eri_block(sc, sd, sc, sd, cart8=True))))
    return ab[:, :, :, :, None, None, None, None] * cd[None, None, None, None, :, :, :, :]


def evaluate(cfg):
    gb()
    from gbasis.integrals.electron_repulsion import ElectronRepulsionIntegral, electron_repulsion_integral

    o = Obs(cfg)
    shells = build(cfg)
    g = [gshell(s) for s in shells]
    if cfg["kind"] in ("ill", "quartet", "order", "alias"):
        blk = ElectronRepulsionIntegral.construct_array_contraction(*g)
        o.call()
        n = [x.norm_cont for x in g]
        blk = (blk * n[0][:, :, None, None, None, None, None, None] * n[1][None, None, :, :, None, None, None, None]
               * n[2][None, None, None, None, :, :, None, None] * n[3][None, None, None, None, None, None, :, :])
        ref = coulomb.eri_block(*shells, cart8=True)
        sc = schwarz4(*shells)
        key = {"ill": "eri-block-ill", "order": "eri-block-primitive-order", "alias": "eri-block-shared-arrays"}.get(cfg["kind"], "eri-block")
        o.cmp("construct_array_contraction (ab|cd)", blk, ref, TOL, sc, key=key, floor=1e-250)
    else:
        ref = coulomb.eri_tensor(shells)
        d = np.sqrt(np.abs(coulomb.schwarz_diag(shells)))
        sc = d[:, :, None, None] * d[None, None, :, :]
        chem = electron_repulsion_integral(g, notation="chemist")
        o.call()
        o.cmp("electron_repulsion_integral chemist", chem, ref, TOL, sc, key="eri-chemist")
        phys = electron_repulsion_integral(g, notation="physicist")
        o.call()
        o.same("physicist == chemist.transpose(0,2,1,3)", phys, chem.transpose(0, 2, 1, 3), key="eri-physicist")
        dflt = electron_repulsion_integral(g)
        o.call()
        o.same("default notation is physicist", dflt, phys, key="eri-default")
        if cfg["n"] == 2:
            # the same shell object listed twice
            na_ = shells[0].nfunc
            idx = list(range(len(ref))) + list(range(na_))
            rep = electron_repulsion_integral([g[0], g[1], g[0]], notation="chemist")
            o.call()
            o.cmp("electron_repulsion_integral([a, b, a]) with a the same object", rep, ref[np.ix_(idx, idx, idx, idx)], TOL,
                  sc[np.ix_(idx, idx, idx, idx)], key="eri-repeated-shell-object")
        nb = nbasis(shells)
        T = np.array([hvec("eriT%d" % r, nb, -1, 1) for r in range(max(1, nb - 2))][:4])
        gT = electron_repulsion_integral(g, transform=T, notation="chemist")
        o.call()
        refT = np.einsum("ia,jb,kc,ld,abcd->ijkl", T, T, T, T, ref)
        aT = np.abs(T)
        scT = np.einsum("ia,jb,kc,ld,abcd->ijkl", aT, aT, aT, aT, sc)
        o.cmp("electron_repulsion_integral transformed", gT, refT, TOL, scT, key="eri-transform")
        # a 0/1-valued transformation whose rows SUM functions (not a selection matrix)
        Tb = np.zeros((max(1, nb - 1), nb))
        for r in range(Tb.shape[0]):
            Tb[r, r] = 1.0
            Tb[r, (r + 2) % nb] = 1.0
        gB = electron_repulsion_integral(g, transform=Tb, notation="chemist")
        o.call()
        o.cmp("electron_repulsion_integral with a 0/1-valued transformation", gB,
              np.einsum("ia,jb,kc,ld,abcd->ijkl", Tb, Tb, Tb, Tb, ref), TOL,
              np.einsum("ia,jb,kc,ld,abcd->ijkl", Tb, Tb, Tb, Tb, sc), key="eri-transform-binary")
    return o
