"""C02  kinetic-energy integrals exact (engine E1)."""
import numpy as np

from .. import pairspace as ps
from ..core import Obs, gb, gshell
from ..ref import oneel

ID = "C02"
ENGINE = "E1 product-space explorer"
RULE = ("complete product of (l_a,l_b) in 0..5 x coordinate-type pair x geometry class x shape pattern, single "
        "shells and 3/4-shell bases for all type patterns; kinetic_energy_integral in both shell orders and the "
        "block routine compared with -1/2 sum_x <a|d2/dx2|b> from closed-form 1-D tables (ket differentiated "
        "explicitly). Non-trivial = reference not identically zero; distinct = distinct rounded references.")
ASSUMPTIONS = ["tolerance 1e-8 * sqrt(T_aa T_bb) with T_aa, T_bb taken from the reference"]
TOL = 1e-8
CHUNK = 6


def bounds(tier):
    return ps.bounds(tier, 5)


def configs(tier, seed):
    return ps.configs(tier, 5)


def evaluate(cfg):
    gb()
    from gbasis.integrals.kinetic_energy import KineticEnergyIntegral, kinetic_energy_integral

    o = Obs(cfg)
    shells = ps.build(cfg)
    ref = oneel.matrix(shells, shells, oneel.KINETIC)
    td = np.abs(np.diag(ref))
    scale = np.sqrt(np.outer(td, td))
    g = [gshell(s) for s in shells]
    T = kinetic_energy_integral(g)
    o.call()
    o.cmp("kinetic_energy_integral", T, ref, TOL, scale)
    if cfg["kind"] == "pair":
        a, b = shells
        na = a.nfunc
        perm = list(range(na, len(ref))) + list(range(na))
        T2 = kinetic_energy_integral([g[1], g[0]])
        o.call()
        o.cmp("kinetic_energy_integral reversed order", T2, ref[np.ix_(perm, perm)], TOL, scale[np.ix_(perm, perm)])
        if cfg.get("alias"):
            idx = list(range(len(ref))) + list(range(na))
            T3 = kinetic_energy_integral([g[0], g[1], g[0]])
            o.call()
            o.cmp("kinetic_energy_integral([a, b, a]) with a the same object", T3, ref[np.ix_(idx, idx)], TOL,
                  scale[np.ix_(idx, idx)], key="repeated-shell-object")
        for x, y, nm in ((0, 1, "(a,b)"), (1, 0, "(b,a)")):
            blk = KineticEnergyIntegral.construct_array_contraction(g[x], g[y])
            o.call()
            blk = blk * g[x].norm_cont[:, :, None, None] * g[y].norm_cont[None, None, :, :]
            rb = oneel.block(shells[x], shells[y], oneel.KINETIC, cart4=True)
            da = np.abs(np.einsum("mcmc->mc", oneel.block(shells[x], shells[x], oneel.KINETIC, cart4=True)))
            db = np.abs(np.einsum("mcmc->mc", oneel.block(shells[y], shells[y], oneel.KINETIC, cart4=True)))
            sc = np.sqrt(da[:, :, None, None] * db[None, None, :, :])
            o.cmp("construct_array_contraction" + nm, blk, rb, TOL, sc)
    return o
