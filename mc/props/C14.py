"""C14  electrostatic potential = nuclear - electronic Coulomb potential; threshold rule; transforms (E1)."""
import numpy as np

from .. import alphabet as al
from ..core import Obs, gb, gshell, hfloat, hvec
from ..ref import coulomb
from ..ref.shells import RefShell, nbasis

ID = "C14"
ENGINE = "E1 product-space explorer"
RULE = ("product of bases (1-3 shells, l 0..3, generalized, every coordinate-type pattern) x density matrix class "
        "{PSD, indefinite} x nuclei set (1..5 nuclei, charges of both signs, magnitudes 0.1..100) x point set "
        "(generic, on a nucleus, mid-way) x transformation {none, square orthogonal, square general, rectangular} x "
        "EVERY threshold in {0, 0.99 d, 1.01 d for each point-nucleus distance d, beyond the largest}; the returned "
        "potential is compared with sum_A Z_A/|R-R_A| [d_A >= thr] - sum gamma_ab <a|1/|r-R||b> from the "
        "McMurchie-Davidson reference. Non-trivial = reference not identically zero; distinct = distinct rounded "
        "reference vectors (so thresholds that change the mask count separately).")
ASSUMPTIONS = ["tolerance 1e-8 * (sum_A |Z_A|/d_A [kept] + sum |gamma_ab| sqrt(V_aa V_bb))",
               "a point exactly on a nucleus combined with threshold 0 must give an infinite value of the sign of that charge"]
TOL = 1e-8
CHUNK = 1

BASES = [[(0, 2, 1)], [(1, 1, 2)], [(2, 2, 1), (0, 1, 1)], [(1, 2, 2), (3, 1, 1)], [(0, 1, 2), (1, 1, 1), (2, 1, 1)],
         [(3, 2, 1), (2, 1, 2), (0, 3, 1)]]
NUCSETS = [[1.0], [3.0, -2.0], [0.1, 100.0, 7.0], [6.0, -0.5, 1.0, 17.0, -35.0]]
TRANS = ["none", "orth", "general", "rect"]


def bounds(tier):
    return {"bases": len(BASES), "type_patterns": "all 2^n", "density_classes": 2, "nuclei_sets": len(NUCSETS),
            "transforms": 4, "thresholds_per_config": "2 per point-nucleus distance + 2"}


def configs(tier, seed):
    out = []
    bases = BASES if tier != "quick" else [BASES[2], BASES[4], BASES[5]]  # incl. d and f on different centres
    for bi, b in enumerate(bases):
        for tp in al.type_patterns(len(b)):
            for dens in ("psd", "indef"):
                for ni, _ in enumerate(NUCSETS):
                    if tier == "quick" and ni not in (1, 2):
                        continue
                    for tr in TRANS:
                        if tier == "quick" and (hash_small(bi, tp, dens, ni) % 4) != TRANS.index(tr):
                            continue
                        out.append({"basis": BASES.index(b), "types": list(tp), "dens": dens, "nuc": ni, "tr": tr})
    # the upper end of the point-count range (1-30 points): one family with 27 and 30 points
    for npts in (27, 30, 1, 2, 3):
        for tr in TRANS:
            out.append({"basis": 2, "types": ["spherical", "cartesian"], "dens": "indef", "nuc": 2, "tr": tr, "npts": npts})
    # thresholds EXACTLY equal to a point-nucleus distance (dyadic coordinates, Pythagorean displacements: the
    # distance is exact in floating point whatever formula computes it): "below the threshold" is a strict inequality
    for ni in (1, 2, 3):
        out.append({"basis": 0, "types": ["cartesian"], "dens": "psd", "nuc": ni, "tr": TRANS[ni], "exact": 1})
    return out


def hash_small(bi, tp, dens, ni):
    return bi + sum(i * (t == "spherical") for i, t in enumerate(tp, 1)) + (dens == "psd") + ni


def build(cfg):
    spec = BASES[cfg["basis"]]
    cs = al.molecule_centers(len(spec), tag="esp-mol")
    shells = []
    for i, (l, K, M) in enumerate(spec):
        exps = [(0.4, 1.9, 7.0)[(i + k) % 3] * (1 + 0.4 * k) for k in range(K)]
        shells.append(RefShell(l, cs[i], exps, al.coeffs(K, M, rot=i), cfg["types"][i]))
    Z = np.array(NUCSETS[cfg["nuc"]])
    nuc = np.array([hvec("esp-nuc%d" % i, 3, -1.5, 1.5) for i in range(len(Z))])
    nuc[0] = np.array(cs[0])
    pts = [hvec("esp-pt0", 3, -2.0, 2.0), hvec("esp-pt1", 3, -0.6, 0.6), list(nuc[-1]),
           list((nuc[0] + np.array(cs[-1])) / 2 + np.array([0.0, 0.21, 0.0]))]
    if cfg.get("npts", 4) > 4:
        pts += [hvec("esp-more%d" % i, 3, -2.5, 2.5) for i in range(cfg["npts"] - 4)]
    return shells, nuc, Z, np.array(pts)


def evaluate(cfg):
    gb()
    from gbasis.evals.electrostatic_potential import electrostatic_potential

    o = Obs(cfg)
    shells, nuc, Z, pts = build(cfg)
    if cfg.get("npts") in (1, 2, 3):
        pts = pts[:cfg["npts"]]
    if cfg.get("exact"):
        nuc[0] = [0.5, -0.25, 1.0]
        nuc[1] = [-1.5, 0.75, 0.25]
        pts[0] = nuc[0] + np.array([0.75, 1.0, 0.0])   # distance 1.25
        pts[1] = nuc[1] + np.array([0.25, -0.5, 0.5])  # distance 0.75
        shells = [s_.with_(center=tuple(nuc[0])) for s_ in shells]
    g = [gshell(s) for s in shells]
    n = nbasis(shells)
    V = coulomb.coulomb_matrix(shells, shells, pts)  # (n, n, P)
    Vd = np.abs(coulomb.coulomb_diag(shells, pts))
    tr = cfg["tr"]
    if tr == "none":
        T = None
        k = n
    elif tr == "orth":
        q, _ = np.linalg.qr(np.array([hvec("espQ%d" % r, n, -1, 1) for r in range(n)]))
        T = q
        k = n
    elif tr == "general":
        T = np.array([hvec("espG%d" % r, n, -1, 1) for r in range(n)])
        k = n
    else:
        k = 3 if n != 3 else 2
        T = np.array([hvec("espR%d" % r, n, -1, 1) for r in range(k)])
    X = np.array([hvec("espD%d" % r, k, -1, 1) for r in range(k)])
    if cfg["dens"] == "psd":
        gam = X @ X.T
    else:
        gam = (X + X.T) / 2
    gam_ao = gam if T is None else T.T @ gam @ T
    elec = np.einsum("ab,abp->p", gam_ao, V)
    esc = np.einsum("ab,ap,bp->p", np.abs(gam_ao), np.sqrt(Vd), np.sqrt(Vd))
    dist = np.linalg.norm(pts[:, None, :] - nuc[None, :, :], axis=2)  # (P, N)
    has_zero = bool(np.any(dist == 0))
    thrs = []
    for d in sorted(set(np.round(dist.ravel(), 14))):
        if d > 0:
            thrs += [0.99 * d, 1.01 * d]
    thrs += [float(dist.max() * 1.5)]
    if len(pts) > 8:
        thrs = thrs[::max(1, len(thrs) // 12)] + thrs[-1:]  # many points: an evenly spaced dozen of the bracketing thresholds
    if cfg.get("exact"):
        thrs = [t for d in (1.25, 0.75) for t in (d, float(np.nextafter(d, 0.0)), float(np.nextafter(d, 9.0)))]
    thrs = [0.0, 0] + thrs  # float and int zero (a point on a nucleus then gives an infinite potential)
    o.notes["max_thresholds"] = len(thrs)
    for thr in thrs:
        keep = dist >= thr
        with np.errstate(divide="ignore", invalid="ignore"):
            terms = np.where(keep, Z[None, :] / dist, 0.0)
        ref = terms.sum(axis=1) - elec
        sc = np.abs(terms).sum(axis=1) + esc
        kw = {} if T is None else {"transform": T}
        try:
            got = electrostatic_potential(g, gam, pts, nuc, Z, threshold_dist=thr, **kw)
            o.call()
        except Exception as e:  # a valid request must not be rejected
            o.call()
            o.check("electrostatic_potential accepted valid input", False,
                    detail="%s: %s" % (type(e).__name__, str(e)[:200]), key="esp-rejected-" + tr)
            break
        fin = np.isfinite(ref)
        if not fin.all():
            # nothing is below a zero threshold: the point sitting on a nucleus keeps its (infinite) nuclear term
            o.check("threshold 0 keeps the nucleus under the point (infinite potential of the sign of Z)",
                    bool(np.all(np.isinf(got[~fin]) & (np.sign(got[~fin]) == np.sign(ref[~fin])))),
                    detail={"got": [float(v) for v in got[~fin]], "expected": [float(v) for v in ref[~fin]]},
                    key="esp-threshold-zero-on-nucleus", token=("inf", cfg["nuc"]))
        o.cmp("electrostatic_potential thr=%.6g" % thr, got[fin], ref[fin], TOL, sc[fin],
              key="esp-threshold" if thr > 0 else "esp-value")
    return o
