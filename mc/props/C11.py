"""C11  index symmetries; reordering shells only reorders indices (engine E2)."""
import itertools

import numpy as np

from .. import alphabet as al
from ..core import Obs, gb, gshell
from ..ref.shells import RefShell, nbasis, shell_slices
from ..rewrite import Explorer, System, default_env, density_quantities, integral_quantities, post_bfs
from . import C04

ID = "C11"
ENGINE = "E2 rewrite-graph BFS"
RULE = ("states = orderings of a basis of 2-5 shells with pairwise different (l, K, M, type); transitions = every "
        "transposition of two shells; BFS to closure (all n! orderings for n<=4; for 5 shells the 24 orderings fixing "
        "the first shell plus the 5 rotations); law on every edge and every public quantity: output(new order) = "
        "output(old order) with basis indices permuted (density-type fields: equal, with the density matrix permuted). "
        "Block level: for every shell pair of the ladder each orientation is evaluated independently "
        "(construct_array_contraction(s1,s2) vs (s2,s1)): symmetric operators symmetric, momentum-type Hermitian; for "
        "shell quartets (ladder quartets and the tight/diffuse quartets of C04's list) all eight orientations.")
ASSUMPTIONS = ["tolerance 1e-10 of the condition scale; ERI 2e-6 of the Schwarz scale (two orientations may each be off by "
               "1e-6)"]
CHUNK = 1
post = post_bfs


def bounds(tier):
    return {"shell_counts": "2..5", "orderings": "n! (n<=4); 24+5 for n=5", "transpositions_per_state": "n(n-1)/2",
            "block_pairs": "all ordered pairs of 8 ladder shells", "block_quartets": "ladder quartets + 40 ill-conditioned"}


def configs(tier, seed):
    out = []
    for n in (2, 3, 4):
        starts = [0, 1] if tier == "quick" else [0, 1, 2, 3, 4]
        for st in starts:
            tps = al.type_patterns(n)
            sel = [tps[(st + 1) % len(tps)], tps[(st + 2 + n) % len(tps)]] if tier == "quick" else tps[::max(1, len(tps) // 4)]
            for tp in sel:
                out.append({"kind": "perm", "n": n, "start": st, "types": list(tp), "tier": tier})
    out.append({"kind": "perm5", "n": 5, "start": 0, "types": ["cartesian", "spherical", "spherical", "cartesian", "spherical"],
                "tier": tier})
    for i in range(8):
        for j in range(8):
            if tier == "quick" and (i + j) % 2:
                continue
            out.append({"kind": "pairblocks", "i": i, "j": j})
    qs = [(0, 1, 2, 3), (1, 1, 0, 2), (2, 0, 2, 1), (3, 0, 1, 1)] if tier == "quick" else \
        [q for q in itertools.product(range(4), repeat=4) if sum(q) % 3 == 0]
    for q in qs:
        out.append({"kind": "quartetblocks", "ls": list(q)})
    for ti in range(len(C04.TIGHT)):
        for xy in C04.XY:
            for pl in (C04.PLACE if tier != "quick" else ["bra", "split14"]):
                out.append({"kind": "illblocks", "tight": ti, "xy": list(xy), "place": pl})
    return out


def ladder(n, start, types, lcap=None):
    cs = al.molecule_centers(n, tag="perm-mol")
    shells = []
    for i in range(n):
        s = al.ladder_shell(start + i, cs[i], types[i], lmax=3 if lcap is None else lcap)
        shells.append(s)
    return shells


def perm_matrix(shells_old, order):
    """L (n x n): new function list = shells_old[order[0]], shells_old[order[1]], ..."""
    sl = shell_slices(shells_old)
    n = nbasis(shells_old)
    L = np.zeros((n, n))
    r = 0
    for k in order:
        w = sl[k].stop - sl[k].start
        L[r:r + w, sl[k]] = np.eye(w)
        r += w
    return L


def transpositions(st):
    n = len(st.shells)
    for i in range(n):
        for j in range(i + 1, n):
            order = list(range(n))
            order[i], order[j] = order[j], order[i]
            new = st.with_(shells=[st.shells[k] for k in order])
            yield ("swap shells %d,%d" % (i, j), new, perm_matrix(st.shells, order))


def evaluate(cfg):
    gb()
    o = Obs(cfg)
    kind = cfg["kind"]
    if kind in ("perm", "perm5"):
        quick = cfg.get("tier") == "quick"
        shells = ladder(cfg["n"], cfg["start"], cfg["types"], lcap=2 if cfg["n"] >= 4 else 3)
        env = default_env(shells, "perm")
        dq = density_quantities()
        if quick or cfg["n"] >= 4:
            for k in ("ehrenfest_hessian", "general_ked", "deriv_density(1,2,0)"):
                dq.pop(k)
        ex = Explorer(o, integral_quantities(), dq, tol=1e-10, eri_cap=(14 if quick else 30),
                      dens_every={2: 1, 3: 3, 4: 18, 5: 40}[cfg["n"]] if quick else {2: 1, 3: 2, 4: 6, 5: 12}[cfg["n"]])
        seed = System(shells, None, env)
        if kind == "perm":
            ex.bfs(seed, transpositions, depth=10)
        else:
            def rw(st):
                n = len(st.shells)
                # transpositions among shells 1..4 (first fixed) and the rotation
                for i in range(1, n):
                    for j in range(i + 1, n):
                        order = list(range(n))
                        order[i], order[j] = order[j], order[i]
                        yield ("swap shells %d,%d" % (i, j), st.with_(shells=[st.shells[k] for k in order]),
                               perm_matrix(st.shells, order))
            ex.eri_cap = 0
            ex.bfs(seed, rw, depth=10)
            cur = seed
            for r in range(5):
                order = list(range(1, 5)) + [0]
                nxt = cur.with_(shells=[cur.shells[k] for k in order])
                ex.check_edge(cur, nxt, perm_matrix(cur.shells, order), "rotate shells")
                cur = nxt
            o.notes["bfs_edges"] = o.notes.get("bfs_edges", 0) + 5
        return o
    from gbasis.integrals.angular_momentum import AngularMomentumIntegral
    from gbasis.integrals.electron_repulsion import ElectronRepulsionIntegral
    from gbasis.integrals.kinetic_energy import KineticEnergyIntegral
    from gbasis.integrals.moment import Moment
    from gbasis.integrals.momentum import MomentumIntegral
    from gbasis.integrals.overlap import Overlap
    from gbasis.integrals.point_charge import PointChargeIntegral

    if kind == "pairblocks":
        cs = al.molecule_centers(2, tag="blk")
        a = al.ladder_shell(cfg["i"], cs[0], "cartesian", lmax=5)
        b = al.ladder_shell(cfg["j"], cs[1], "cartesian", lmax=5)
        ga, gb_ = gshell(a), gshell(b)
        env = default_env([a, b], "blk")
        ops = [("overlap", Overlap, {}, False), ("kinetic", KineticEnergyIntegral, {}, False),
               ("point_charge", PointChargeIntegral, {"points_coords": env["charge_coords"], "points_charge": env["charges"]}, False),
               ("moment", Moment, {"moment_coord": env["origin"], "moment_orders": env["orders"]}, False),
               ("momentum", MomentumIntegral, {}, True), ("angular_momentum", AngularMomentumIntegral, {}, True)]
        smax = max(np.max(np.abs(Overlap.construct_array_contraction(s_, s_))) for s_ in (ga, gb_))
        tmax = max(np.max(np.abs(KineticEnergyIntegral.construct_array_contraction(s_, s_))) for s_ in (ga, gb_))
        vmax = max(np.max(np.abs(PointChargeIntegral.construct_array_contraction(
            s_, s_, points_coords=env["charge_coords"], points_charge=env["charges"]))) for s_ in (ga, gb_))
        mmax = max(np.max(np.abs(Moment.construct_array_contraction(
            s_, s_, moment_coord=env["origin"], moment_orders=np.array([[0, 0, 0], [2, 0, 0], [0, 2, 2], [4, 0, 2], [0, 6, 0]]))))
                   for s_ in (ga, gb_))
        r2 = max(np.max(np.abs(Moment.construct_array_contraction(
            s_, s_, moment_coord=np.zeros(3), moment_orders=np.array([[2, 0, 0], [0, 2, 0], [0, 0, 2]])))) for s_ in (ga, gb_))
        nat = {"overlap": smax, "kinetic": tmax, "point_charge": vmax, "moment": mmax + smax,
               "momentum": float(np.sqrt(2 * tmax * smax)), "angular_momentum": float(np.sqrt(2 * tmax * 3 * r2))}
        for name, cls, kw, herm in ops:
            x = cls.construct_array_contraction(ga, gb_, **kw)
            y = cls.construct_array_contraction(gb_, ga, **kw)
            o.call(2)
            yt = np.swapaxes(np.swapaxes(y, 0, 2), 1, 3)
            if herm:
                yt = np.conj(yt)
            xa = cls.construct_array_contraction(ga, ga, **kw)
            xb = cls.construct_array_contraction(gb_, gb_, **kw)
            o.call(2)
            # natural scale of the operator on these two shells (Cauchy-Schwarz through the kinetic / overlap blocks)
            sc = nat[name]
            o.cmp("%s block(a,b) == block(b,a)^%s" % (name, "H" if herm else "T"), x, yt, 1e-10, sc, key=name + "-orientation")
            xat = np.swapaxes(np.swapaxes(xa, 0, 2), 1, 3)
            o.cmp("%s block(a,a) %s" % (name, "Hermitian" if herm else "symmetric"), xa, np.conj(xat) if herm else xat,
                  1e-10, sc, key=name + "-diag-symmetry")
        return o
    if kind == "quartetblocks":
        sh = C04.build({"kind": "quartet", "ls": cfg["ls"], "geom": "general", "ep": 3, "kp": 1, "tier": "thorough"})
    else:
        sh = C04.build({"kind": "ill", "tight": cfg["tight"], "xy": cfg["xy"], "place": cfg["place"]})
    g = [gshell(s) for s in sh]
    base = ElectronRepulsionIntegral.construct_array_contraction(*g)
    o.call()
    dab = ElectronRepulsionIntegral.construct_array_contraction(g[0], g[1], g[0], g[1])
    dcd = ElectronRepulsionIntegral.construct_array_contraction(g[2], g[3], g[2], g[3])
    o.call(2)
    sab = np.sqrt(np.abs(np.einsum("pqrspqrs->pqrs", dab)))
    scd = np.sqrt(np.abs(np.einsum("pqrspqrs->pqrs", dcd)))
    sc = sab[:, :, :, :, None, None, None, None] * scd[None, None, None, None, :, :, :, :]
    # the eight orientations: permutation of shell slots -> axes transposition back to (a,b,c,d)
    orient = [(0, 1, 2, 3), (1, 0, 2, 3), (0, 1, 3, 2), (1, 0, 3, 2), (2, 3, 0, 1), (3, 2, 0, 1), (2, 3, 1, 0), (3, 2, 1, 0)]
    for p in orient[1:]:
        blk = ElectronRepulsionIntegral.construct_array_contraction(*[g[k] for k in p])
        o.call()
        # blk axes: (M,L) pairs in slot order p; bring back to a,b,c,d
        inv = [p.index(k) for k in range(4)]
        axes = []
        for k in inv:
            axes += [2 * k, 2 * k + 1]
        o.cmp("ERI orientation %s" % (p,), blk.transpose(axes), base, 2e-6, sc, key="eri-orientation", floor=1e-250)
    return o


def cost(cfg):
    return {"perm5": 100, "perm": 10 * cfg.get("n", 0) ** 2}.get(cfg["kind"], 1)
