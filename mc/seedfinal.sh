#!/bin/bash
# final pass: evaluate every delivered seed (in /tmp/seed/<ID>/) against its mapped checks with the current
# checks, and register it under /verif/seeded/.   usage: seedfinal.sh [name ...]
map=/tmp/seed/map.txt
sel="$@"
while read name prop checks; do
  [ -n "$sel" ] && ! echo " $sel " | grep -q " $name " && continue
  id=${name%_*}; x=${name#*_}
  p=/tmp/seed/$id/patch_$x.diff
  [ -f $p ] || { echo "missing $p"; continue; }
  out=/tmp/seed/final_$name
  /venv/bin/python /verif/mc/mutate.py $p --tests --demo /tmp/seed/$id/demo_$x.py --checks $checks --json $out.json > $out.log 2>&1
  /venv/bin/python /verif/mc/seedreg.py add $name --property $prop --patch $p --demo /tmp/seed/$id/demo_$x.py --notes /tmp/seed/$id/notes_$x.md --result $out.json > /dev/null
  echo "$name: $(grep -E 'KILLED|silent' $out.log | awk '{print $1":"$2}' | tr '\n' ' ') tests=$(grep -o '[0-9]* passed' $out.log)"
done < $map
