#!/bin/bash
# final pass: evaluate every delivered seed (in $SEEDROOT/<ID>/) against its mapped checks with the current
# checks, and register it under /verif/seeded/.   usage: [SEEDROOT=/tmp/seed PREFIX=] seedfinal.sh [name ...]
root=${SEEDROOT:-/tmp/seed}
map=$root/map.txt
prefix=${PREFIX:-}
sel="$@"
while read name prop checks; do
  [ -n "$sel" ] && ! echo " $sel " | grep -q " $name " && continue
  id=${name%_*}; x=${name#*_}
  p=$root/$id/patch_$x.diff
  [ -f $p ] || { echo "missing $p"; continue; }
  out=$root/final_$name
  /venv/bin/python /verif/mc/mutate.py $p --tests --demo $root/$id/demo_$x.py --checks $checks --json $out.json > $out.log 2>&1
  /venv/bin/python /verif/mc/seedreg.py add $prefix$name --property $prop --patch $p --demo $root/$id/demo_$x.py --notes $root/$id/notes_$x.md --result $out.json > /dev/null
  echo "$prefix$name: $(grep -E 'KILLED|silent' $out.log | awk '{print $1":"$2}' | tr '\n' ' ') tests=$(grep -o '[0-9]* passed' $out.log) demo=$(grep -o 'patched exit [0-9]' $out.log)"
done < $map
