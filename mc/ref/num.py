"""Number contexts for the reference model.

The reference formulas are written once, against a tiny context object, and can be
executed either in numpy extended precision (`LD`, 64-bit mantissa, fast, used for the
bulk enumeration) or in mpmath with 34 significant digits (`MP`, used by the self-test to
bound the error of the LD path on the extreme ends of the alphabets).
"""
import math

import mpmath
import numpy as np

mpmath.mp.dps = 34


class _LD:
    name = "longdouble"
    dtype = np.longdouble
    pi = np.longdouble(np.pi) if np.finfo(np.longdouble).eps > 1e-17 else np.longdouble(
        "3.14159265358979323846264338327950288"
    )

    @staticmethod
    def arr(x):
        return np.asarray(x, dtype=np.longdouble)

    @staticmethod
    def exp(x):
        return np.exp(x)

    @staticmethod
    def sqrt(x):
        return np.sqrt(x)

    @staticmethod
    def zeros(shape):
        return np.zeros(shape, dtype=np.longdouble)

    @staticmethod
    def tofloat(x):
        return np.asarray(x, dtype=np.float64)


class _MP:
    name = "mpmath34"
    dtype = object
    pi = mpmath.mp.pi + 0

    @staticmethod
    def arr(x):
        a = np.asarray(x, dtype=object)
        f = np.frompyfunc(lambda v: mpmath.mpf(float(v)) if not isinstance(v, mpmath.mpf) else v, 1, 1)
        out = f(a)
        return np.asarray(out, dtype=object)

    @staticmethod
    def exp(x):
        return np.asarray(np.frompyfunc(mpmath.exp, 1, 1)(x), dtype=object)

    @staticmethod
    def sqrt(x):
        return np.asarray(np.frompyfunc(mpmath.sqrt, 1, 1)(x), dtype=object)

    @staticmethod
    def zeros(shape):
        a = np.empty(shape, dtype=object)
        a[...] = mpmath.mpf(0)
        return a

    @staticmethod
    def tofloat(x):
        return np.asarray(np.frompyfunc(float, 1, 1)(np.asarray(x, dtype=object)), dtype=np.float64)


LD = _LD()
MP = _MP()


def dfact(n):
    """Double factorial n!! with (-1)!! = 0!! = 1 (exact python int)."""
    r = 1
    while n > 1:
        r *= n
        n -= 2
    return r


def binom(n, k):
    return math.comb(n, k)
