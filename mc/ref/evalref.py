"""Reference values of basis functions, their mixed partial derivatives, and density-type fields.

Derivatives are obtained by repeated exact polynomial differentiation of P(x) exp(-alpha x^2):
    P_0 = x^a,   P_{n+1} = P_n' - 2 alpha x P_n
(gbasis: Leibniz sum over Hermite polynomials / hand-expanded first and second derivatives).

Density-type fields are built from a tiny term algebra over D(p;q)(r) = sum_ab gamma_ab d^p phi_a d^q phi_b
with a mechanical partial-derivative operator (product rule), so that every derived quantity
(gradient, Laplacian, Hessian, divergence of the stress tensor, Jacobian of the force) follows from
its definition rather than from a transcription of the library's expanded formulas.
"""
import numpy as np

from .num import LD
from .shells import contraction_norms, prim_norm, shell_transform

_ld = np.longdouble


def _axis_tables(l, exps, x, maxorder):
    """vals[n, a, k, P] = d^n/dx^n [x^a exp(-alpha_k x^2)] and mags (sum of |monomial terms| * gauss)."""
    e = np.asarray(exps, dtype=_ld)
    x = np.asarray(x, dtype=_ld)
    K, P = len(e), len(x)
    gauss = np.exp(-e[:, None] * x[None, :] ** 2)  # K, P
    ax = np.abs(x)
    vals = np.zeros((maxorder + 1, l + 1, K, P), dtype=_ld)
    mags = np.zeros((maxorder + 1, l + 1, K, P), dtype=_ld)
    for a in range(l + 1):
        # polynomial coefficients per primitive: dict power -> array(K)
        poly = {a: np.ones(K, dtype=_ld)}
        for n in range(maxorder + 1):
            v = np.zeros((K, P), dtype=_ld)
            m = np.zeros((K, P), dtype=_ld)
            for pw, c in poly.items():
                t = c[:, None] * x[None, :] ** pw if pw else c[:, None] * np.ones((1, P), dtype=_ld)
                v += t
                m += np.abs(c)[:, None] * (ax[None, :] ** pw if pw else np.ones((1, P), dtype=_ld))
            vals[n, a] = v * gauss
            mags[n, a] = m * gauss
            nxt = {}
            for pw, c in poly.items():
                if pw > 0:
                    nxt[pw - 1] = nxt.get(pw - 1, 0) + c * pw
                nxt[pw + 1] = nxt.get(pw + 1, 0) - 2 * e * c
            poly = nxt
    return vals, mags


class BasisEvaluator:
    """Caches per-shell axis tables for a fixed basis and point set."""

    def __init__(self, shells, points, maxorder=4):
        self.shells = shells
        self.points = np.asarray(points, dtype=float)
        self.maxorder = maxorder
        self._tabs = []
        for sh in shells:
            t = []
            for ax in range(3):
                t.append(_axis_tables(sh.l, sh.exps, self.points[:, ax] - _ld(sh.center[ax]), maxorder))
            self._tabs.append(t)
        self._cache = {}

    def deriv(self, order):
        """(values, magnitude) arrays of shape (nbasis, P) for the derivative order triple."""
        order = tuple(int(o) for o in order)
        if order in self._cache:
            return self._cache[order]
        vs, ms = [], []
        for sh, t in zip(self.shells, self._tabs):
            comps = np.array(sh.comps)
            v = None
            m = None
            for ax in range(3):
                va = t[ax][0][order[ax]][comps[:, ax]]  # (ncart, K, P)
                ma = t[ax][1][order[ax]][comps[:, ax]]
                v = va if v is None else v * va
                m = ma if m is None else m * ma
            n = np.stack([prim_norm(np.asarray(sh.exps), c, LD) for c in sh.comps])  # ncart, K
            d = np.asarray(sh.coeffs, dtype=_ld)  # K, M
            N = contraction_norms(sh, LD)
            w = n[:, :, None] * d[None, :, :]
            for mm in range(sh.M):
                w[:, :, mm] = w[:, :, mm] * N[mm]
            fv = np.asarray(np.einsum("ckp,ckm->mcp", v, w), dtype=float)
            fm = np.asarray(np.einsum("ckp,ckm->mcp", m, np.abs(w)), dtype=float)
            U = shell_transform(sh)
            fv = np.einsum("fc,mcp->mfp", U, fv)
            fm = np.einsum("fc,mcp->mfp", np.abs(U), fm)
            vs.append(fv.reshape(-1, fv.shape[-1]))
            ms.append(fm.reshape(-1, fm.shape[-1]))
        out = (np.concatenate(vs, axis=0), np.concatenate(ms, axis=0))
        self._cache[order] = out
        return out


# ------------------------------------------------------------------------------------------------
# term algebra over D(p; q)
# ------------------------------------------------------------------------------------------------
Z3 = (0, 0, 0)


def e(i):
    return tuple(1 if j == i else 0 for j in range(3))


def addo(p, q):
    return tuple(a + b for a, b in zip(p, q))


class Terms(dict):
    """{(p, q): coefficient}; `.mag` carries, per key, the sum of |contributions| accumulated while the
    expression was built (so the condition scale does not benefit from cancellations between terms
    that an implementation may well evaluate separately)."""

    def __init__(self, *a, **k):
        super().__init__(*a, **k)
        self.mag = {key: abs(v) for key, v in self.items()}

    def _copy(self):
        out = Terms(self)
        out.mag = dict(self.mag)
        return out

    def __add__(self, other):
        out = self._copy()
        for k, v in other.items():
            out[k] = out.get(k, 0.0) + v
        for k, v in other.mag.items():
            out.mag[k] = out.mag.get(k, 0.0) + v
        return out

    def __sub__(self, other):
        return self + other * (-1.0)

    def __mul__(self, c):
        out = Terms({k: v * c for k, v in self.items()})
        out.mag = {k: v * abs(c) for k, v in self.mag.items()}
        return out

    __rmul__ = __mul__

    def d(self, i):
        """partial derivative with respect to r_i (product rule on both factors)."""
        out = Terms()
        ei = e(i)
        for (p, q), v in self.items():
            for k in ((addo(p, ei), q), (p, addo(q, ei))):
                out[k] = out.get(k, 0.0) + v
        for (p, q), v in self.mag.items():
            for k in ((addo(p, ei), q), (p, addo(q, ei))):
                out.mag[k] = out.mag.get(k, 0.0) + v
        return out

    def maxorder(self):
        return max(max(max(p), max(q)) for (p, q) in self) if self else 0


def D(p=Z3, q=Z3):
    return Terms({(tuple(p), tuple(q)): 1.0})


RHO = D()


def deriv_density(order):
    t = RHO
    for ax in range(3):
        for _ in range(order[ax]):
            t = t.d(ax)
    return t


def laplacian():
    return RHO.d(0).d(0) + RHO.d(1).d(1) + RHO.d(2).d(2)


def posdef_ked():
    return 0.5 * (D(e(0), e(0)) + D(e(1), e(1)) + D(e(2), e(2)))


def stress(i, j, alpha, beta):
    t = -0.5 * alpha * (D(e(i), e(j)) + D(e(j), e(i)))
    t = t + 0.5 * (1 - alpha) * (D(addo(e(i), e(j)), Z3) + D(Z3, addo(e(i), e(j))))
    if i == j:
        t = t - 0.5 * beta * laplacian()
    return t


def force(j, alpha, beta):
    """F_j = - sum_i d_i sigma_ij"""
    t = Terms()
    for i in range(3):
        t = t - stress(i, j, alpha, beta).d(i)
    return t


def force_jacobian(i, j, alpha, beta):
    """H_ij = d F_i / d r_j"""
    return force(i, alpha, beta).d(j)


def evaluate(terms, ev, gamma):
    """Evaluate sum c D(p;q) with density matrix gamma (in the function basis of ev, possibly transformed
    beforehand).  Returns (values, magnitude scale) of shape (P,)."""
    val = 0.0
    mag = 0.0
    ag = np.abs(gamma)
    for (p, q), c in terms.items():
        if c == 0:
            continue
        vp, _ = ev.deriv(p)
        vq, _ = ev.deriv(q)
        val = val + c * np.einsum("ab,ap,bp->p", gamma, vp, vq)
    for (p, q), c in terms.mag.items():
        if c == 0:
            continue
        _, mp_ = ev.deriv(p)
        _, mq = ev.deriv(q)
        mag = mag + c * np.einsum("ab,ap,bp->p", ag, mp_, mq)
    return val, mag
