"""McMurchie-Davidson reference for Coulomb-type integrals (nuclear attraction, ERI).

gbasis uses Obara-Saika vertical recursion + electron transfer + HGP horizontal recursions with
the Boys function from scipy's hyp1f1.  Here: Hermite expansion coefficients E^{ij}_t, Hermite
Coulomb integrals R_{tuv}, Boys function from the lower incomplete gamma function in 34-digit
mpmath followed by downward recursion.  Bulk arithmetic in numpy extended precision.
"""
from functools import lru_cache

import mpmath
import numpy as np

from .num import LD

_ld = np.longdouble


@lru_cache(maxsize=400000)
def _boys_col(nmax, T):
    """(F_0(T), ..., F_nmax(T)) as python floats-of-longdouble strings; T is a python float."""
    T = mpmath.mpf(T)
    if T == 0:
        vals = [mpmath.mpf(1) / (2 * n + 1) for n in range(nmax + 1)]
    else:
        a = mpmath.mpf(nmax) + mpmath.mpf(1) / 2
        if T < 1e-3:
            # series  F_n(T) = sum_k (-T)^k / (k! (2n+2k+1))
            s = mpmath.mpf(0)
            term = mpmath.mpf(1)
            k = 0
            while True:
                c = term / (2 * nmax + 2 * k + 1)
                s += c
                if abs(c) < mpmath.mpf(10) ** (-40):
                    break
                k += 1
                term = term * (-T) / k
            top = s
        else:
            top = mpmath.gammainc(a, 0, T) / (2 * T ** a)
        vals = [None] * (nmax + 1)
        vals[nmax] = top
        eT = mpmath.exp(-T)
        for n in range(nmax - 1, -1, -1):
            vals[n] = (2 * T * vals[n + 1] + eT) / (2 * n + 1)
    return tuple(_ld(mpmath.nstr(v, 25)) for v in vals)


def boys(nmax, T):
    """F_n(T) for n = 0..nmax; T array (longdouble) -> array (nmax+1, *T.shape)."""
    T = np.asarray(T, dtype=_ld)
    out = np.zeros((nmax + 1,) + T.shape, dtype=_ld)
    flat = T.reshape(-1)
    o2 = out.reshape(nmax + 1, -1)
    for i, t in enumerate(flat):
        # T is passed as repr-exact float64 when possible; extended bits are irrelevant at 1e-19 level
        o2[:, i] = _boys_col(nmax, float(t))
    return out


def hermite_E(a, b, A, B, la, lb):
    """E[i, j, t] arrays; a, b broadcastable exponent arrays (longdouble); A, B scalars.
    Returns array of shape (la+1, lb+1, la+lb+1) + broadcast shape."""
    a = np.asarray(a, dtype=_ld)
    b = np.asarray(b, dtype=_ld)
    p = a + b
    mu = a * b / p
    P = (a * _ld(A) + b * _ld(B)) / p
    XPA = P - _ld(A)
    XPB = P - _ld(B)
    XAB = _ld(A) - _ld(B)
    shp = np.broadcast(a, b).shape
    E = np.zeros((la + 1, lb + 1, la + lb + 2) + shp, dtype=_ld)
    E[0, 0, 0] = np.exp(-mu * XAB * XAB)
    inv2p = 1 / (2 * p)
    for i in range(la):
        for t in range(i + 2):
            v = XPA * E[i, 0, t] + (t + 1) * E[i, 0, t + 1]
            if t > 0:
                v = v + inv2p * E[i, 0, t - 1]
            E[i + 1, 0, t] = v
    for i in range(la + 1):
        for j in range(lb):
            for t in range(i + j + 2):
                v = XPB * E[i, j, t] + (t + 1) * E[i, j, t + 1]
                if t > 0:
                    v = v + inv2p * E[i, j, t - 1]
                E[i, j + 1, t] = v
    return E[:, :, : la + lb + 1]


def hermite_R(alpha, X, Y, Z, L):
    """R[t, u, v] (t+u+v <= L) Hermite Coulomb integrals; alpha, X, Y, Z arrays of one shape.
    Returns dense array (L+1, L+1, L+1) + shape (entries with t+u+v > L are zero)."""
    alpha = np.asarray(alpha, dtype=_ld)
    T = alpha * (X * X + Y * Y + Z * Z)
    F = boys(L, T)
    shp = alpha.shape
    # Rn[n][(t,u,v)]
    cur = {}
    for n in range(L + 1):
        cur[(0, 0, 0, n)] = (-2 * alpha) ** n * F[n]

    memo = cur

    def R(t, u, v, n):
        key = (t, u, v, n)
        if key in memo:
            return memo[key]
        if t > 0:
            val = X * R(t - 1, u, v, n + 1)
            if t > 1:
                val = val + (t - 1) * R(t - 2, u, v, n + 1)
        elif u > 0:
            val = Y * R(t, u - 1, v, n + 1)
            if u > 1:
                val = val + (u - 1) * R(t, u - 2, v, n + 1)
        else:
            val = Z * R(t, u, v - 1, n + 1)
            if v > 1:
                val = val + (v - 1) * R(t, u, v - 2, n + 1)
        memo[key] = val
        return val

    out = np.zeros((L + 1, L + 1, L + 1) + shp, dtype=_ld)
    for t in range(L + 1):
        for u in range(L + 1 - t):
            for v in range(L + 1 - t - u):
                out[t, u, v] = R(t, u, v, 0)
    return out


def hermite_list(L):
    return [(t, u, v) for t in range(L + 1) for u in range(L + 1 - t) for v in range(L + 1 - t - u)]


def pair_E(sa, sb):
    """E_ab[ca, cb, H, Ka, Kb] with H over hermite_list(la+lb), and p, P arrays."""
    ea = np.asarray(sa.exps, dtype=_ld)[:, None]
    eb = np.asarray(sb.exps, dtype=_ld)[None, :]
    Ex = [hermite_E(ea, eb, sa.center[ax], sb.center[ax], sa.l, sb.l) for ax in range(3)]
    ca = np.array(sa.comps)
    cb = np.array(sb.comps)
    H = np.array(hermite_list(sa.l + sb.l))
    out = None
    for ax in range(3):
        f = Ex[ax][ca[:, ax][:, None, None], cb[:, ax][None, :, None], H[:, ax][None, None, :]]
        out = f if out is None else out * f
    p = ea + eb
    P = [(ea * _ld(sa.center[ax]) + eb * _ld(sb.center[ax])) / p for ax in range(3)]
    return out, p, P, H


def nuclear_raw(sa, sb, points):
    """int x_A^a x_B^b exp(..) / |r - C| for every point C: [ca, cb, Ka, Kb, Nc] (un-normalised)."""
    E, p, P, H = pair_E(sa, sb)
    pts = np.asarray(points, dtype=_ld)
    L = sa.l + sb.l
    p3 = p[:, :, None] + 0 * pts[None, None, :, 0]
    R = hermite_R(p3, P[0][:, :, None] - pts[None, None, :, 0], P[1][:, :, None] - pts[None, None, :, 1],
                  P[2][:, :, None] - pts[None, None, :, 2], L)
    Rh = R[H[:, 0], H[:, 1], H[:, 2]]  # (nH, Ka, Kb, Nc)
    out = np.einsum("abhkl,hklc->abklc", E, Rh)
    return out * (2 * LD.pi / p)[None, None, :, :, None]


def eri_raw(sa, sb, sc, sd):
    """(ab|cd) over un-normalised primitive monomials: [ca, cb, cc, cd, Ka, Kb, Kc, Kd]."""
    Eab, p, P, Hab = pair_E(sa, sb)
    Ecd, q, Q, Hcd = pair_E(sc, sd)
    sign = (-1.0) ** (Hcd.sum(axis=1))
    Ecd = Ecd * sign.astype(_ld)[None, None, :, None, None]
    L = sa.l + sb.l + sc.l + sd.l
    p4 = p[:, :, None, None]
    q4 = q[None, None, :, :]
    alpha = p4 * q4 / (p4 + q4)
    R = hermite_R(alpha, P[0][:, :, None, None] - Q[0][None, None], P[1][:, :, None, None] - Q[1][None, None],
                  P[2][:, :, None, None] - Q[2][None, None], L)
    Rm = R[Hab[:, 0][:, None] + Hcd[:, 0][None, :], Hab[:, 1][:, None] + Hcd[:, 1][None, :],
           Hab[:, 2][:, None] + Hcd[:, 2][None, :]]  # (nHab, nHcd, Ka, Kb, Kc, Kd)
    X = np.einsum("hgklmn,cdgmn->hcdklmn", Rm, Ecd)
    out = np.einsum("abhkl,hcdklmn->abcdklmn", Eab, X)
    pref = 2 * LD.pi ** 2 * np.sqrt(LD.pi) / (p4 * q4 * np.sqrt(p4 + q4))
    return out * pref[None, None, None, None]
