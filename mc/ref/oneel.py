"""Reference one-electron two-index quantities for separable operators.

An operator is given as a list of terms (coef, (opx, opy, opz)) where each per-axis op is
(k, n): multiply by (x - C)^k and differentiate the ket n times.  Every block (a, b) of a
matrix is computed independently (no symmetric copies), so the reference knows nothing of
gbasis' triangle bookkeeping.
"""
from functools import lru_cache

import numpy as np

from . import gauss1d
from .num import LD
from .shells import contraction_norms, prim_norm, shell_transform

OVERLAP = [(1.0, ((0, 0), (0, 0), (0, 0)))]
KINETIC = [(-0.5, ((0, 2), (0, 0), (0, 0))), (-0.5, ((0, 0), (0, 2), (0, 0))), (-0.5, ((0, 0), (0, 0), (0, 2)))]


def MOMENT(i, j, k):
    return [(1.0, ((i, 0), (j, 0), (k, 0)))]


# gradient components <a| d/dx_i |b>  (momentum = -i * this)
GRAD = [
    [(1.0, ((0, 1), (0, 0), (0, 0)))],
    [(1.0, ((0, 0), (0, 1), (0, 0)))],
    [(1.0, ((0, 0), (0, 0), (0, 1)))],
]
# (r x grad)_i about the origin C (angular momentum = -i * this)
RXGRAD = [
    [(1.0, ((0, 0), (1, 0), (0, 1))), (-1.0, ((0, 0), (0, 1), (1, 0)))],
    [(1.0, ((0, 1), (0, 0), (1, 0))), (-1.0, ((1, 0), (0, 0), (0, 1)))],
    [(1.0, ((1, 0), (0, 1), (0, 0))), (-1.0, ((0, 1), (1, 0), (0, 0)))],
]


@lru_cache(maxsize=4000)
def _axis_array(ea, eb, A, B, C, la, lb, kmax, nmax, ctxname):
    """W[k, n, i, j, Ka, Kb] = <(x-A)^i e^{-a..} | (x-C)^k d^n/dx^n | (x-B)^j e^{-b..}> for one axis."""
    ctx = LD if ctxname == LD.name else _mp()
    a = ctx.arr(np.asarray(ea))[:, None]
    b = ctx.arr(np.asarray(eb))[None, :]
    T = gauss1d.table(a, b, A, B, C, la, lb + nmax, kmax, ctx)
    W = ctx.zeros((kmax + 1, nmax + 1, la + 1, lb + 1, len(ea), len(eb)))
    for n in range(nmax + 1):
        coefs = [gauss1d.ket_derivative_coeffs(b, j, n, ctx) for j in range(lb + 1)]
        for k in range(kmax + 1):
            for i in range(la + 1):
                for j in range(lb + 1):
                    s = None
                    for jj, c in coefs[j].items():
                        t = c * T[i][jj][k]
                        s = t if s is None else s + t
                    W[k, n, i, j] = s
    return W


def _mp():
    from .num import MP

    return MP


def raw_multi(sa, sb, terms_list, C=(0.0, 0.0, 0.0), ctx=LD):
    """Un-normalised primitive integrals [comp_a, comp_b, Ka, Kb, E] for E operators at once."""
    allterms = [t for terms in terms_list for t in terms]
    kmax = [max(t[1][ax][0] for t in allterms) for ax in range(3)]
    nmax = [max(t[1][ax][1] for t in allterms) for ax in range(3)]
    W = [
        _axis_array(sa.exps, sb.exps, sa.center[ax], sb.center[ax], float(C[ax]), sa.l, sb.l,
                    kmax[ax], nmax[ax], ctx.name)
        for ax in range(3)
    ]
    ca = np.array(sa.comps)
    cb = np.array(sb.comps)
    out = ctx.zeros((len(ca), len(cb), sa.K, sb.K, len(terms_list)))
    for e, terms in enumerate(terms_list):
        s = None
        for coef, ops in terms:
            t = None
            for ax in range(3):
                k, n = ops[ax]
                f = W[ax][k, n][ca[:, ax][:, None], cb[:, ax][None, :]]
                t = f if t is None else t * f
            if coef != 1.0:
                t = t * coef
            s = t if s is None else s + t
        out[..., e] = s
    return out


def raw_block(sa, sb, terms, C=(0.0, 0.0, 0.0), ctx=LD):
    """Un-normalised primitive integrals [comp_a, comp_b, Ka, Kb] in the shells' Cartesian orders."""
    return raw_multi(sa, sb, [terms], C, ctx)[..., 0]


def contract_block(sa, sb, raw, ctx=LD, cart4=False):
    """raw [ca, cb, Ka, Kb, ...] -> normalised contracted function block [(ma, fa), (mb, fb), ...]
    (float64) in documented order, with the shells' coordinate types applied.
    cart4=True: return instead the normalised Cartesian block of shape (Ma, ca, Mb, cb, ...)."""
    extra = raw.shape[4:]
    na = ctx.arr(np.stack([prim_norm(np.asarray(sa.exps), c, ctx) for c in sa.comps]))  # (ca, Ka)
    nb = ctx.arr(np.stack([prim_norm(np.asarray(sb.exps), c, ctx) for c in sb.comps]))
    da = ctx.arr(np.asarray(sa.coeffs))  # Ka, Ma
    db = ctx.arr(np.asarray(sb.coeffs))
    Na = contraction_norms(sa, ctx)
    Nb = contraction_norms(sb, ctx)
    # weights wa[c, k, m]
    wa = na[:, :, None] * da[None, :, :]
    wb = nb[:, :, None] * db[None, :, :]
    for m in range(sa.M):
        wa[:, :, m] = wa[:, :, m] * Na[m]
    for m in range(sb.M):
        wb[:, :, m] = wb[:, :, m] * Nb[m]
    # out[ma, ca, mb, cb, ...]
    r = raw.reshape(raw.shape[:4] + (-1,))
    out = np.einsum("abkle,akm,bln->manbe", r, wa, wb) if ctx is LD else _einsum_obj(r, wa, wb)
    out = ctx.tofloat(out)
    if cart4:
        return out.reshape(out.shape[:4] + extra)
    Ua = shell_transform(sa)
    Ub = shell_transform(sb)
    out = np.einsum("fa,manbe->mfnbe", Ua, out)
    out = np.einsum("gb,mfnbe->mfnge", Ub, out)
    out = out.reshape((sa.M * Ua.shape[0], sb.M * Ub.shape[0]) + extra)
    return out


def _einsum_obj(r, wa, wb):
    ca, cb, Ka, Kb, E = r.shape
    Ma, Mb = wa.shape[2], wb.shape[2]
    out = np.empty((Ma, ca, Mb, cb, E), dtype=object)
    for m in range(Ma):
        for a in range(ca):
            for n in range(Mb):
                for b in range(cb):
                    for e in range(E):
                        s = 0
                        for k in range(Ka):
                            for l in range(Kb):
                                s = s + r[a, b, k, l, e] * wa[a, k, m] * wb[b, l, n]
                        out[m, a, n, b, e] = s
    return out


def block(sa, sb, terms, C=(0.0, 0.0, 0.0), ctx=LD, cart4=False):
    return contract_block(sa, sb, raw_block(sa, sb, terms, C, ctx), ctx, cart4=cart4)


def matrix(rows, cols, terms, C=(0.0, 0.0, 0.0), ctx=LD):
    """Full reference matrix over two shell lists; every block computed on its own."""
    return np.block([[block(sa, sb, terms, C, ctx) for sb in cols] for sa in rows])


def diag(shells, terms, C=(0.0, 0.0, 0.0), ctx=LD):
    """Diagonal elements <a|O|a> for every function of the basis."""
    return np.concatenate([np.diag(block(sh, sh, terms, C, ctx)) for sh in shells])


def block_multi(sa, sb, terms_list, C=(0.0, 0.0, 0.0), ctx=LD, cart4=False):
    return contract_block(sa, sb, raw_multi(sa, sb, terms_list, C, ctx), ctx, cart4=cart4)


def matrix_multi(rows, cols, terms_list, C=(0.0, 0.0, 0.0), ctx=LD):
    """Reference array (nrow, ncol, E) for E operators; every block computed on its own."""
    return np.concatenate(
        [np.concatenate([block_multi(sa, sb, terms_list, C, ctx) for sb in cols], axis=1) for sa in rows], axis=0)


def diag_multi(shells, terms_list, C=(0.0, 0.0, 0.0), ctx=LD):
    out = []
    for sh in shells:
        b = block_multi(sh, sh, terms_list, C, ctx)
        out.append(np.einsum("iie->ie", b))
    return np.concatenate(out, axis=0)
