"""Reference nuclear-attraction and electron-repulsion arrays over normalised contracted functions."""
import numpy as np

from . import md
from .num import LD
from .oneel import contract_block
from .shells import contraction_norms, prim_norm, shell_transform


def coulomb_block(sa, sb, points, cart4=False):
    """<a| 1/|r - C| |b> per point: (na, nb, Nc)   (positive quantity; gbasis returns -q times it)."""
    return contract_block(sa, sb, md.nuclear_raw(sa, sb, points), LD, cart4=cart4)


def coulomb_matrix(rows, cols, points):
    return np.concatenate(
        [np.concatenate([coulomb_block(sa, sb, points) for sb in cols], axis=1) for sa in rows], axis=0)


def coulomb_diag(shells, points):
    return np.concatenate([np.einsum("iic->ic", coulomb_block(s, s, points)) for s in shells], axis=0)


def _weights(sh):
    """w[c, k, m] = N_cont[m] d[k, m] N_prim[c, k]"""
    n = np.stack([prim_norm(np.asarray(sh.exps), c, LD) for c in sh.comps])
    d = np.asarray(sh.coeffs, dtype=np.longdouble)
    N = contraction_norms(sh, LD)
    w = n[:, :, None] * d[None, :, :]
    for m in range(sh.M):
        w[:, :, m] = w[:, :, m] * N[m]
    return w


def eri_block(sa, sb, sc, sd, cart8=False):
    """(ab|cd) chemists' notation over the functions of four shells: (na, nb, nc, nd)."""
    raw = md.eri_raw(sa, sb, sc, sd)
    wa, wb, wc, wd = _weights(sa), _weights(sb), _weights(sc), _weights(sd)
    x = np.einsum("abcdklmn,akp->pabcdlmn", raw, wa)
    x = np.einsum("pabcdlmn,blq->paqbcdmn", x, wb)
    x = np.einsum("paqbcdmn,cmr->paqbrcdn", x, wc)
    x = np.einsum("paqbrcdn,dns->paqbrcsd", x, wd)
    x = np.asarray(x, dtype=np.float64)
    if cart8:
        return x
    Ua, Ub, Uc, Ud = (shell_transform(s) for s in (sa, sb, sc, sd))
    x = np.einsum("fa,paqbrcsd->pfqbrcsd", Ua, x)
    x = np.einsum("gb,pfqbrcsd->pfqgrcsd", Ub, x)
    x = np.einsum("hc,pfqgrcsd->pfqgrhsd", Uc, x)
    x = np.einsum("id,pfqgrhsd->pfqgrhsi", Ud, x)
    return x.reshape(sa.M * Ua.shape[0], sb.M * Ub.shape[0], sc.M * Uc.shape[0], sd.M * Ud.shape[0])


def eri_tensor(shells):
    """Full (ab|cd) tensor, every shell quartet computed independently in its own orientation."""
    n = len(shells)
    return np.concatenate([
        np.concatenate([
            np.concatenate([
                np.concatenate([eri_block(shells[i], shells[j], shells[k], shells[l]) for l in range(n)], axis=3)
                for k in range(n)], axis=2)
            for j in range(n)], axis=1)
        for i in range(n)], axis=0)


def schwarz_diag(shells):
    """(ab|ab) for all function pairs: matrix (N, N)."""
    n = len(shells)
    rows = []
    for i in range(n):
        row = []
        for j in range(n):
            b = eri_block(shells[i], shells[j], shells[i], shells[j])
            row.append(np.einsum("abab->ab", b))
        rows.append(np.concatenate(row, axis=1))
    return np.concatenate(rows, axis=0)
