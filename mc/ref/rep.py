"""Representation of an orthogonal matrix R (proper or improper) on monomials, Cartesian shells and
spherical shells:  f'(R u) = sum D[f', f] f(u).   Independent of gbasis."""
import math

import numpy as np

from .num import dfact
from .shells import cart_comps, cart_metric, shell_transform


def _pmul(p, q):
    out = {}
    for k1, v1 in p.items():
        for k2, v2 in q.items():
            k = (k1[0] + k2[0], k1[1] + k2[1], k1[2] + k2[2])
            out[k] = out.get(k, 0.0) + v1 * v2
    return out


def monomial_rep(R, comps):
    """P[t, t'] with (R u)^t = sum_t' P[t, t'] u^t'  for the monomials listed in comps (one total degree)."""
    R = np.asarray(R, dtype=float)
    lin = [{(1, 0, 0): R[i, 0], (0, 1, 0): R[i, 1], (0, 0, 1): R[i, 2]} for i in range(3)]
    lin = [{k: v for k, v in d.items() if v != 0.0} for d in lin]
    idx = {tuple(c): i for i, c in enumerate(comps)}
    P = np.zeros((len(comps), len(comps)))
    for t, c in enumerate(comps):
        poly = {(0, 0, 0): 1.0}
        for ax in range(3):
            for _ in range(c[ax]):
                poly = _pmul(poly, lin[ax])
        for k, v in poly.items():
            P[t, idx[k]] = v
    return P


def cart_norms(comps):
    return np.array([1.0 / math.sqrt(dfact(2 * a - 1) * dfact(2 * b - 1) * dfact(2 * c - 1)) for a, b, c in comps])


def shell_rep(sh, R):
    """D (ncomp x ncomp) for one segment of the shell: phi'_f(R u) = sum_f' D[f, f'] phi_f'(u)."""
    comps = [tuple(c) for c in sh.comps]
    P = monomial_rep(R, comps)
    N = cart_norms(comps)
    Dc = (N[:, None] / N[None, :]) * P
    if sh.ctype == "cartesian":
        return Dc
    U = shell_transform(sh)
    G = cart_metric(comps)
    return U @ Dc @ G @ U.T


def basis_rep(shells, R):
    blocks = [np.kron(np.eye(sh.M), shell_rep(sh, R)) for sh in shells]
    n = sum(b.shape[0] for b in blocks)
    D = np.zeros((n, n))
    o = 0
    for b in blocks:
        D[o:o + b.shape[0], o:o + b.shape[0]] = b
        o += b.shape[0]
    return D


def signed_permutations():
    """The 48 elements of O_h as 3x3 matrices."""
    import itertools

    out = []
    for p in itertools.permutations(range(3)):
        for s in itertools.product([1, -1], repeat=3):
            M = np.zeros((3, 3))
            for i in range(3):
                M[i, p[i]] = s[i]
            out.append(M)
    return out


def rotation_from_seed(tag, hvec, improper=False):
    """Generic orthogonal matrix from a seed-hashed vector (QR of a generic matrix)."""
    A = np.array([hvec("%s-%d" % (tag, i), 3, -1, 1) for i in range(3)])
    Q, Rr = np.linalg.qr(A)
    Q = Q @ np.diag(np.sign(np.diag(Rr)))
    if (np.linalg.det(Q) < 0) != improper:
        Q[:, 0] *= -1
    return Q
