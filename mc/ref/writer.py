"""Inverse direction of the basis-set parsers: write an abstract basis description to NWChem or
Gaussian94 text.  The abstract description is the model the parse result must equal.

Abstract basis:  [(element, [(letters, [exp strings], [[coef strings] per primitive])...]) ...]
  letters: 'S', 'P', ..., 'K' with ncol >= 1 generalized columns, or 'SP' with exactly 2 columns.
Numbers are kept as *strings* in the chosen format; the model value is float(string) with a Fortran
'D' replaced by 'E', so the expected parse result is exact.
"""
LETTERS = "SPDFGHIK"
ANGMOM = {c: i for i, c in enumerate(LETTERS)}


def fmt_number(x, style):
    """style: 'E' -> 0.1234500000E+02 ; 'D' -> 0.1234500000D+02 ; 'plain' -> 12.3450000"""
    if style == "plain":
        s = "%.7f" % x
        return s
    s = "%.10E" % x  # d.dddddddddde+xx
    mant, exp = s.split("E")
    sign = "-" if mant.startswith("-") else ""
    mant = mant.lstrip("-")
    digits = mant.replace(".", "")
    e = int(exp) + 1
    out = "%s0.%s%s%+03d" % (sign, digits[:10], style, e)
    return out


def value(s):
    return float(s.replace("D", "E").replace("d", "e"))


def model_columns(basis):
    """{element: [(l, (exps...), (column...)), ...]} flattened in file order, SP split into s then p."""
    out = {}
    for elem, shells in basis:
        lst = out.setdefault(elem, [])
        for letters, exps, rows in shells:
            ev = tuple(value(e) for e in exps)
            ncol = len(rows[0])
            if len(letters) > 1:
                for i, ch in enumerate(letters):
                    lst.append((ANGMOM[ch], ev, tuple(value(r[i]) for r in rows)))
            else:
                for c in range(ncol):
                    lst.append((ANGMOM[letters], ev, tuple(value(r[c]) for r in rows)))
    return out


PREAMBLES = ["none", "blank", "comment1", "comment2", "header", "many"]


def _preamble(kind, cmt, header):
    if kind == "none":
        return ""
    if kind == "blank":
        return "\n"
    if kind == "comment1":
        return cmt + " basis set written by the model\n"
    if kind == "comment2":
        return cmt + " basis set written by the model\n" + cmt + " second comment line\n"
    if kind == "header":
        return header
    return (cmt + "-" * 60 + "\n" + cmt + " Basis Set Exchange style header\n" + cmt + " Version 0\n" + cmt + "-" * 60
            + "\n\n\n" + header)


def write_nwchem(basis, preamble="header", sep="comment", end=True, lower_letters=False, interior="none"):
    """interior: 'none' | 'comment' | 'blank' - a comment / blank line after the shell header and between the
    primitive rows of a shell (NWChem input allows '#' comments and blank lines anywhere)."""
    out = [_preamble(preamble, "#", 'BASIS "ao basis" PRINT\n')]
    for n, (elem, shells) in enumerate(basis):
        if sep == "comment" and (n > 0 or preamble in ("header", "many")):
            out.append("#BASIS SET: (model) -> [model]\n")
        elif sep == "blank" and n > 0:
            out.append("\n")
        for letters, exps, rows in shells:
            lt = letters.lower() if lower_letters else letters
            out.append("%s    %s\n" % (elem, lt))
            for k, (e, r) in enumerate(zip(exps, rows)):
                if interior != "none" and k in (0, 1):
                    out.append("# interior comment\n" if interior == "comment" else "\n")
                out.append("      " + e + "".join("      " + c for c in r) + "\n")
    if end:
        out.append("END\n")
    return "".join(out)


def write_gbs(basis, preamble="header", sep="comment", end=True, lower_letters=False, interior="none"):
    """Generalized columns are written as consecutive shells sharing their exponents.
    interior: 'none' | 'comment' | 'blank' - a '!' comment / blank line after the first and before the last
    primitive row of every shell."""
    def rows_(lines):
        if interior == "none" or len(lines) < 1:
            return lines
        extra = "! interior comment\n" if interior == "comment" else "\n"
        out_ = []
        for k, ln in enumerate(lines):
            if k in (1, len(lines) - 1) and k > 0:
                out_.append(extra)
            out_.append(ln)
        return out_

    out = [_preamble(preamble, "!", "****\n")]
    for n, (elem, shells) in enumerate(basis):
        out.append("%s     0\n" % elem)
        for letters, exps, rows in shells:
            lt = letters.lower() if lower_letters else letters
            if len(letters) > 1:
                out.append("%s   %d   1.00\n" % (lt, len(exps)))
                out.extend(rows_(["      " + e + "".join("      " + c for c in r) + "\n" for e, r in zip(exps, rows)]))
            else:
                for c in range(len(rows[0])):
                    out.append("%s   %d   1.00\n" % (lt, len(exps)))
                    out.extend(rows_(["      " + e + "      " + r[c] + "\n" for e, r in zip(exps, rows)]))
        out.append("****\n")
        if sep == "blank" and n < len(basis) - 1:
            out.append("\n")
    if end:
        out.append("\n")
    return "".join(out)


def tokenize_numbers(text):
    """independent tokenizer used by the self-test: all numeric tokens of the data rows, as floats"""
    import re

    vals = []
    for line in text.split("\n"):
        toks = line.split()
        if len(toks) >= 2 and all(re.fullmatch(r"[-+]?\d+\.\d*(?:[EDed][-+]?\d+)?", t) for t in toks):
            vals.extend(value(t) for t in toks)
    return vals
