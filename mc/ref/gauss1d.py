"""Closed-form one-dimensional Gaussian integrals (reference model).

    I[i, j, k] = int (x-A)^i (x-B)^j (x-C)^k exp(-a (x-A)^2 - b (x-B)^2) dx

obtained by re-expanding the polynomial about the product centre P and using
int u^(2t) exp(-p u^2) du = (2t-1)!! / (2p)^t sqrt(pi/p).  No recursion in i, j, k is
used (gbasis uses the Obara-Saika upward recursion), so the two share no algorithm.

Derivatives of the ket are obtained by explicit differentiation of the ket polynomial:
    d/dx [(x-B)^j e^{-b (x-B)^2}] = j (x-B)^(j-1) e - 2 b (x-B)^(j+1) e.
"""
from .num import LD, binom, dfact


def _powcoef(X, n, one):
    """Coefficients of (u + X)^n in powers of u: list c[m], m = 0..n."""
    out = []
    for m in range(n + 1):
        c = binom(n, m)
        out.append(c * (X ** (n - m)) if n - m > 0 else one * c)
    return out


def _polymul(f, g):
    out = [None] * (len(f) + len(g) - 1)
    for i, fi in enumerate(f):
        for j, gj in enumerate(g):
            t = fi * gj
            out[i + j] = t if out[i + j] is None else out[i + j] + t
    return out


def table(a, b, A, B, C, imax, jmax, kmax, ctx=LD):
    """Return nested list T[i][j][k] of arrays (shape = broadcast(a, b)).

    a, b : exponent arrays (already broadcast against each other, e.g. (Ka,1) and (1,Kb)).
    A, B, C : scalars (one Cartesian coordinate of the two centres and of the moment origin).
    """
    a = ctx.arr(a)
    b = ctx.arr(b)
    A = ctx.arr(A)
    B = ctx.arr(B)
    C = ctx.arr(C)
    p = a + b
    one = p / p
    P = (a * A + b * B) / p
    mu = a * b / p
    pref = ctx.exp(-mu * (A - B) * (A - B)) * ctx.sqrt(ctx.pi / p)
    PA = P - A
    PB = P - B
    PC = P - C
    nmax = imax + jmax + kmax
    # G[n] = int u^n e^{-p u^2} du / sqrt(pi/p)
    G = []
    for n in range(nmax + 1):
        if n % 2:
            G.append(None)
        else:
            G.append(one * dfact(n - 1) / (2 * p) ** (n // 2) if n else one)
    pa = [_powcoef(PA, i, one) for i in range(imax + 1)]
    pb = [_powcoef(PB, j, one) for j in range(jmax + 1)]
    pc = [_powcoef(PC, k, one) for k in range(kmax + 1)]
    T = []
    for i in range(imax + 1):
        Ti = []
        for j in range(jmax + 1):
            ab = _polymul(pa[i], pb[j])
            Tij = []
            for k in range(kmax + 1):
                abc = _polymul(ab, pc[k]) if k else ab
                s = None
                for n, c in enumerate(abc):
                    if n % 2:
                        continue
                    t = c * G[n]
                    s = t if s is None else s + t
                Tij.append(s * pref)
            Ti.append(Tij)
        T.append(Ti)
    return T


def ket_derivative_coeffs(b, j, n, ctx=LD):
    """Return dict {j': coeff} with d^n/dx^n [(x-B)^j e^{-b(x-B)^2}] = sum_j' coeff (x-B)^j' e^{..}.

    `b` may be an array (the coefficients are then arrays of the same shape).
    """
    b = ctx.arr(b)
    one = b / b
    cur = {j: one}
    for _ in range(n):
        nxt = {}
        for jj, c in cur.items():
            if jj > 0:
                nxt[jj - 1] = nxt.get(jj - 1, 0) + c * jj
            nxt[jj + 1] = nxt.get(jj + 1, 0) - c * 2 * b
        cur = nxt
    return cur
