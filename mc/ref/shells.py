"""Abstract shell description, documented component orders, norms and the independent
real-solid-harmonic generator of the reference model.  Nothing here imports gbasis."""
from fractions import Fraction
from functools import lru_cache
import math

import numpy as np

from .num import LD, binom, dfact


class RefShell:
    """Abstract generalized-contraction shell (the 'model' side of a configuration)."""

    __slots__ = ("l", "center", "exps", "coeffs", "ctype", "cart_order", "sph_order", "icenter")

    def __init__(self, l, center, exps, coeffs, ctype, cart_order=None, sph_order=None, icenter=None):
        self.icenter = icenter
        self.l = int(l)
        self.center = tuple(float(x) for x in center)
        self.exps = tuple(float(x) for x in exps)
        c = np.asarray(coeffs, dtype=float)
        if c.ndim == 1:
            c = c[:, None]
        self.coeffs = tuple(tuple(float(v) for v in row) for row in c)
        assert len(self.coeffs) == len(self.exps)
        self.ctype = {"c": "cartesian", "p": "spherical"}.get(ctype, ctype)
        self.cart_order = tuple(tuple(c) for c in cart_order) if cart_order is not None else None
        self.sph_order = tuple(sph_order) if sph_order is not None else None

    @property
    def K(self):
        return len(self.exps)

    @property
    def M(self):
        return len(self.coeffs[0])

    @property
    def comps(self):
        return list(self.cart_order) if self.cart_order is not None else cart_comps(self.l)

    @property
    def labels(self):
        return list(self.sph_order) if self.sph_order is not None else sph_labels(self.l)

    @property
    def ncomp(self):
        return 2 * self.l + 1 if self.ctype == "spherical" else (self.l + 1) * (self.l + 2) // 2

    @property
    def nfunc(self):
        return self.M * self.ncomp

    def with_(self, **kw):
        d = dict(l=self.l, center=self.center, exps=self.exps, coeffs=self.coeffs, ctype=self.ctype,
                 cart_order=self.cart_order, sph_order=self.sph_order, icenter=self.icenter)
        d.update(kw)
        return RefShell(**d)

    def to_json(self):
        d = {"l": self.l, "center": list(self.center), "exps": list(self.exps),
             "coeffs": [list(r) for r in self.coeffs], "ctype": self.ctype}
        if self.cart_order is not None:
            d["cart_order"] = [list(c) for c in self.cart_order]
        if self.sph_order is not None:
            d["sph_order"] = list(self.sph_order)
        if self.icenter is not None:
            d["icenter"] = self.icenter
        return d

    @staticmethod
    def from_json(d):
        return RefShell(d["l"], d["center"], d["exps"], d["coeffs"], d["ctype"],
                        d.get("cart_order"), d.get("sph_order"), d.get("icenter"))


def cart_comps(l):
    """Documented Cartesian component order: a_x descending, then a_y descending."""
    return [(x, y, l - x - y) for x in range(l, -1, -1) for y in range(l - x, -1, -1)]


def sph_labels(l):
    """Documented default order of the pure functions: s_l..s_1, c0, c1..c_l; (c1,s1,c0) for p."""
    if l == 1:
        return ["c1", "s1", "c0"]
    return ["s%d" % m for m in range(l, 0, -1)] + ["c%d" % m for m in range(l + 1)]


def prim_norm(alpha, comp, ctx=LD):
    """Normalisation constant of the primitive x^ax y^ay z^az exp(-alpha r^2)."""
    alpha = ctx.arr(alpha)
    l = sum(comp)
    d = dfact(2 * comp[0] - 1) * dfact(2 * comp[1] - 1) * dfact(2 * comp[2] - 1)
    val = (2 * alpha / ctx.pi) ** 3 * (4 * alpha) ** (2 * l) / (d * d)
    # val = N^4
    return ctx.sqrt(ctx.sqrt(val))


# --------------------------------------------------------------------------------------------
# real regular solid harmonics, generated independently of gbasis' Helgaker expansion:
#    C_lm ~ Pi_l^m(z, r^2) Re (x + i y)^m ,   S_lm ~ Pi_l^m(z, r^2) Im (x + i y)^m
#    Pi_l^m = sum_k (-1)^k 2^-l C(l,k) C(2l-2k, l) (l-2k)!/(l-2k-m)! r^2k z^(l-2k-m)
# exact rational polynomial arithmetic; normalised under the metric of unit-normalised
# Cartesian Gaussians of a common exponent.
# --------------------------------------------------------------------------------------------
def _poly_mul(p, q):
    out = {}
    for (a, b, c), u in p.items():
        for (d, e, f), v in q.items():
            k = (a + d, b + e, c + f)
            out[k] = out.get(k, 0) + u * v
    return {k: v for k, v in out.items() if v != 0}


def _poly_pow(p, n):
    out = {(0, 0, 0): Fraction(1)}
    for _ in range(n):
        out = _poly_mul(out, p)
    return out


@lru_cache(maxsize=None)
def solid_harmonic_poly(l, m):
    """Exact polynomial {(ax,ay,az): Fraction} of the (un-normalised) real solid harmonic.

    m >= 0: cosine type C_lm;  m < 0: sine type S_l|m|.
    """
    am = abs(m)
    # (x + i y)^am = sum_p C(am,p) x^p (i y)^(am-p)
    ang = {}
    for p in range(am + 1):
        q = am - p
        # i^q: real part if q%4 in (0,2), imaginary if in (1,3)
        if m >= 0:
            if q % 2:
                continue
            s = 1 if q % 4 == 0 else -1
        else:
            if q % 2 == 0:
                continue
            s = 1 if q % 4 == 1 else -1
        ang[(p, q, 0)] = Fraction(s * binom(am, p))
    r2 = {(2, 0, 0): Fraction(1), (0, 2, 0): Fraction(1), (0, 0, 2): Fraction(1)}
    rad = {}
    for k in range((l - am) // 2 + 1):
        c = Fraction((-1) ** k * binom(l, k) * binom(2 * l - 2 * k, l)
                     * math.factorial(l - 2 * k), 2 ** l * math.factorial(l - 2 * k - am))
        term = _poly_mul(_poly_pow(r2, k), {(0, 0, l - 2 * k - am): Fraction(1)})
        for key, v in term.items():
            rad[key] = rad.get(key, 0) + c * v
    return _poly_mul(rad, ang)


def cart_metric(comps):
    """Overlap matrix of unit-normalised Cartesian Gaussians x^a y^b z^c e^{-alpha r^2} sharing
    alpha (independent of alpha)."""
    n = len(comps)
    G = np.zeros((n, n))
    for i, c1 in enumerate(comps):
        for j, c2 in enumerate(comps):
            v = 1.0
            for a, b in zip(c1, c2):
                if (a + b) % 2:
                    v = 0.0
                    break
                v *= dfact(a + b - 1) / math.sqrt(dfact(2 * a - 1) * dfact(2 * b - 1))
            G[i, j] = v
    return G


@lru_cache(maxsize=None)
def _sph_row_default(l, m):
    """Coefficients of the normalised solid harmonic (l, m) over unit-normalised Cartesians in the
    documented Cartesian order."""
    comps = cart_comps(l)
    poly = solid_harmonic_poly(l, m)
    row = np.zeros(len(comps))
    for i, c in enumerate(comps):
        if c in poly:
            # monomial = unit-normalised cart function / N(comp); common alpha-dependence dropped
            row[i] = float(poly[c]) * math.sqrt(dfact(2 * c[0] - 1) * dfact(2 * c[1] - 1) * dfact(2 * c[2] - 1))
    G = cart_metric(comps)
    nrm = row @ G @ row
    return tuple(row / math.sqrt(nrm))


def parse_label(lab):
    """'c2' -> (+1, 2) ; 's1' -> (+1, -1) ; '-c3' -> (-1, 3)."""
    sign = 1
    if lab.startswith("-"):
        sign = -1
        lab = lab[1:]
    m = int(lab[1:])
    return sign, (m if lab[0] == "c" else -m)


def sph_transform(l, comps=None, labels=None):
    """Reference Cartesian->spherical matrix, shape (2l+1, ncart) ("left" form)."""
    comps = cart_comps(l) if comps is None else [tuple(c) for c in comps]
    labels = sph_labels(l) if labels is None else list(labels)
    default = cart_comps(l)
    pos = [default.index(c) for c in comps]
    T = np.zeros((len(labels), len(comps)))
    for i, lab in enumerate(labels):
        sign, m = parse_label(lab)
        row = np.asarray(_sph_row_default(l, m))
        T[i] = sign * row[pos]
    return T


# --------------------------------------------------------------------------------------------
# layout of a basis: shell -> segment -> component
# --------------------------------------------------------------------------------------------
def basis_layout(shells):
    """Return list of (shell index, segment, component index) in documented function order."""
    out = []
    for s, sh in enumerate(shells):
        for m in range(sh.M):
            for c in range(sh.ncomp):
                out.append((s, m, c))
    return out


def nbasis(shells):
    return sum(sh.nfunc for sh in shells)


def shell_slices(shells):
    out = []
    o = 0
    for sh in shells:
        out.append(slice(o, o + sh.nfunc))
        o += sh.nfunc
    return out


def contraction_norms(sh, ctx=LD):
    """N_cont[m] making each contracted Cartesian function unit-normalised (same for all
    components of one segment).  Computed from the closed-form same-centre overlap."""
    e = ctx.arr(np.asarray(sh.exps))
    d = ctx.arr(np.asarray(sh.coeffs))  # K, M
    l = sh.l
    # overlap of unit-normalised primitives i, j of equal component: (2 sqrt(ai aj)/(ai+aj))^(l+3/2)
    r = 2 * ctx.sqrt(e[:, None] * e[None, :]) / (e[:, None] + e[None, :])
    S = r ** (l + 1) * ctx.sqrt(r)
    out = []
    for m in range(sh.M):
        v = (d[:, m][:, None] * d[:, m][None, :] * S).sum()
        out.append(1 / ctx.sqrt(v))
    return out


def shell_transform(sh):
    """Matrix U (ncomp_out, ncart) taking the unit-normalised Cartesian components of the shell (in
    the shell's Cartesian order) to its functions."""
    comps = sh.comps
    if sh.ctype == "cartesian":
        return np.eye(len(comps))
    return sph_transform(sh.l, comps, sh.labels)
