#!/venv/bin/python
"""Fresh-interpreter helper for C19: reads length-prefixed pickled worlds on stdin; for every request forks a child
(which therefore has no call history at all), computes the probe digests there and writes them back."""
import os
import pickle
import struct
import sys
import warnings

sys.dont_write_bytecode = True
sys.path.insert(0, os.path.dirname(os.path.dirname(os.path.abspath(__file__))))
warnings.simplefilter("ignore")


def main():
    from mc import core

    core.gb()
    from mc.props import C19

    inp = sys.stdin.buffer
    out = sys.stdout.buffer
    while True:
        hdr = inp.read(8)
        if len(hdr) < 8:
            break
        n = struct.unpack("<Q", hdr)[0]
        if n == 0:
            break
        msg = inp.read(n)
        world = pickle.loads(msg)
        merged = {}
        # one forked child per probe: not even an earlier probe is part of the history
        for name in C19.probe_names():
            r, w = os.pipe()
            pid = os.fork()
            if pid == 0:
                try:
                    res = C19._probe_digests(world, only=name)
                except Exception as e:  # noqa
                    res = {name: ("zygote-error", repr(e)[:200])}
                with os.fdopen(w, "wb") as f:
                    f.write(pickle.dumps(res))
                os._exit(0)
            os.close(w)
            with os.fdopen(r, "rb") as f:
                merged.update(pickle.loads(f.read()))
            os.waitpid(pid, 0)
        data = pickle.dumps(merged)
        out.write(struct.pack("<Q", len(data)))
        out.write(data)
        out.flush()


if __name__ == "__main__":
    main()
