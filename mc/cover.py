#!/venv/bin/python
"""Vacuity guard (not a registered check): line coverage of /repo/gbasis under an evenly spaced sample of the
quick-tier configurations of every check.  Writes /verif/COVERAGE.md with the lines no check executes.

  cover.py [--per-check 30]
"""
import argparse
import importlib
import io
import os
import sys

sys.dont_write_bytecode = True
sys.path.insert(0, os.path.dirname(os.path.dirname(os.path.abspath(__file__))))

import coverage  # noqa: E402


def main():
    ap = argparse.ArgumentParser()
    ap.add_argument("--per-check", type=int, default=30)
    ap.add_argument("--checks", default="all")
    a = ap.parse_args()
    from mc import core

    cov = coverage.Coverage(source=[os.path.join(core.REPO, "gbasis")], data_file=None, omit=["*/libcint.py"])
    cov.start()
    core.gb()
    ids = ["C%02d" % i for i in range(1, 21)] if a.checks == "all" else a.checks.split(",")
    counts = {}
    for cid in ids:
        mod = importlib.import_module("mc.props.%s" % cid)
        cfgs = list(mod.configs("quick", 0))
        kinds = {}
        for c in cfgs:
            kinds.setdefault(str(c.get("kind", c.get("test", ""))), []).append(c)
        sample = []
        for k, lst in kinds.items():
            n = max(2, a.per_check // max(1, len(kinds)))
            step = max(1, len(lst) // n)
            sample += lst[::step][:n + 1]
        nv = 0
        for c in sample:
            try:
                o = mod.evaluate(c)
                nv += len([v for v in o.violations if not v["key"].startswith("known-")])
            except Exception as e:  # noqa
                print("exception in", cid, repr(e)[:200])
        counts[cid] = (len(sample), nv)
        print(cid, "sampled", len(sample), "configs; violations", nv, flush=True)
    cov.stop()
    out = io.StringIO()
    total = cov.report(file=out, show_missing=True)
    lines = out.getvalue()
    with open(os.path.join(core.VERIF, "COVERAGE.md"), "w") as f:
        f.write("# Line coverage of gbasis under a sample of the quick-tier configurations\n\n"
                "Produced by `python mc/cover.py` (single process, %d configurations per check, evenly spaced per "
                "configuration kind). A vacuity guard: lines listed as missing are executed by no sampled configuration. "
                "`libcint.py` (external C library) and `from_iodata` are out of scope.\n\n```\n%s```\n\nTotal: %.1f%%\n"
                % (a.per_check, lines, total))
    print(lines)


if __name__ == "__main__":
    main()
