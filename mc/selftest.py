#!/venv/bin/python
"""Self-test of the reference model (run by MANIFEST.setup_cmd).

The reference is the trusted base of most checks, so it is checked here against things that share
no code with it: 34-digit mpmath evaluation of the same formulas (bounds the extended-precision
rounding on the extreme alphabet members), mpmath quadrature of the defining integrals, and
algebraic identities.  Exit 0 = all passed.
"""
import os
import sys
import time

sys.dont_write_bytecode = True
sys.path.insert(0, os.path.dirname(os.path.dirname(os.path.abspath(__file__))))

import mpmath  # noqa: E402
import numpy as np  # noqa: E402

from mc.ref import gauss1d, oneel  # noqa: E402
from mc.ref.num import LD, MP  # noqa: E402
from mc.ref.shells import RefShell, cart_comps, cart_metric, sph_transform, solid_harmonic_poly  # noqa: E402

from mc._st import FAILS, ok  # noqa: E402


def t_gauss1d_quad():
    """closed-form 1-D table vs mpmath quadrature of the defining integral."""
    worst = 0
    for (a, b, A, B, C) in [(0.7, 1.3, 0.2, -0.5, 0.9), (12.0, 0.05, -0.4, 1.1, 0.0), (0.35, 0.35, 0.0, 0.0, 0.3)]:
        T = gauss1d.table(np.array([[a]]), np.array([[b]]), A, B, C, 4, 4, 3, MP)
        for (i, j, k) in [(0, 0, 0), (2, 1, 0), (4, 3, 2), (3, 4, 3), (1, 0, 1)]:
            f = lambda x: (x - A) ** i * (x - B) ** j * (x - C) ** k * mpmath.exp(-a * (x - A) ** 2 - b * (x - B) ** 2)
            q = mpmath.quad(f, [-mpmath.inf, min(A, B), max(A, B) + 1e-9, mpmath.inf])
            v = T[i][j][k][0, 0]
            sc = mpmath.quad(lambda x: abs(f(x)), [-mpmath.inf, min(A, B), max(A, B) + 1e-9, mpmath.inf])
            worst = max(worst, abs(v - q) / sc)
    ok("gauss1d closed form == quadrature", worst < 1e-20, "worst rel %.2e" % float(worst))


def t_ld_vs_mp():
    """extended-precision path vs 34-digit path on extreme exponent / geometry members."""
    worst = 0
    for la, lb, ea, eb, d in [(5, 5, (0.02, 10.0), (10.0,), 1.3), (0, 5, (1e5, 0.02), (0.02,), 7.0),
                              (4, 3, (63.0, 2.1), (250.0, 0.35), 0.9), (5, 0, (0.33, 10.0), (1e5,), 1.1)]:
        sa = RefShell(la, (0.1, -0.2, 0.3), ea, np.ones((len(ea), 1)), "cartesian")
        sb = RefShell(lb, (0.1 + 0.5 * d, -0.2 - 0.7 * d, 0.3 + 0.3 * d), eb, np.ones((len(eb), 1)), "cartesian")
        for terms in (oneel.OVERLAP, oneel.KINETIC, oneel.MOMENT(2, 1, 3), oneel.RXGRAD[0]):
            x = oneel.block(sa, sb, terms, C=(0.3, 0.1, -0.2))
            y = oneel.block(sa, sb, terms, C=(0.3, 0.1, -0.2), ctx=MP)
            sc = np.max(np.abs(y)) + 1e-300
            worst = max(worst, np.max(np.abs(x - y)) / sc)
    ok("one-electron reference: longdouble == mpmath34", worst < 1e-13, "worst rel %.2e" % worst)


def t_harmonics():
    """independent solid-harmonic generator: harmonic, orthonormal, cos/sin(m phi) with positive factor."""
    bad = 0
    for l in range(0, 11):
        comps = cart_comps(l)
        T = sph_transform(l)
        G = cart_metric(comps)
        if not np.allclose(T @ G @ T.T, np.eye(2 * l + 1), atol=1e-12):
            bad += 1
        for m in range(-l, l + 1):
            p = solid_harmonic_poly(l, m)
            lap = {}
            for (a, b, c), v in p.items():
                for ax, e in enumerate((a, b, c)):
                    if e >= 2:
                        k = [a, b, c]
                        k[ax] -= 2
                        lap[tuple(k)] = lap.get(tuple(k), 0) + v * e * (e - 1)
            if any(v != 0 for v in lap.values()):
                bad += 1
    ok("solid harmonics l<=10: exactly harmonic, orthonormal under unit-Cartesian metric", bad == 0)
    # azimuthal behaviour on a circle near the pole
    bad = 0
    for l in range(0, 7):
        for m in range(-l, l + 1):
            p = solid_harmonic_poly(l, m)
            vals = []
            for phi in (0.3, 1.1, 2.9, 4.0):
                x, y, z = 0.01 * np.cos(phi), 0.01 * np.sin(phi), 1.0
                v = sum(float(c) * x ** a * y ** b * z ** cc for (a, b, cc), c in p.items())
                ang = np.cos(m * phi) if m >= 0 else np.sin(-m * phi)
                vals.append(v / ang)
            if not (np.allclose(vals, vals[0], rtol=1e-9) and vals[0] > 0):
                bad += 1
    ok("solid harmonics: cos/sin(m phi) with positive polar factor", bad == 0)


TESTS = [t_gauss1d_quad, t_ld_vs_mp, t_harmonics]


def main():
    t0 = time.time()
    extra = []
    try:
        from mc import selftest_more

        extra = selftest_more.TESTS
    except ImportError:
        pass
    for t in TESTS + list(extra):
        t()
    print("selftest: %d failed, %.1fs" % (len(FAILS), time.time() - t0))
    sys.exit(1 if FAILS else 0)


if __name__ == "__main__":
    main()
