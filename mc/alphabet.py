"""Finite alphabets that stand for the continuous quantifiers (DESIGN.md section 4).

Every class exists because a shortcut or branch is visible in the code; checks enumerate the
complete product of the classes they name.  `VERIF_SEED` only moves the *generic* representatives
(through an integer hash) - the class structure and the enumeration are seed independent.
"""
import itertools

import numpy as np

from .core import hfloat, hvec
from .ref.shells import RefShell


def cap(l):
    """Upper end of the exponent range of published sets: 1e5 for s, falling to 10 for h."""
    return float(10 ** (5 - 0.8 * l))


def exps_single(l):
    c = cap(l)
    return [0.02, 0.35, 2.9, round(c / 30, 6), c]


def exp_patterns(l, K, tier="thorough"):
    c = cap(l)
    c30 = round(c / 30, 6)
    if K == 1:
        pats = [(0.02,), (2.9,), (c,), (0.35,), (c30,)]
        return pats[:3] if tier == "quick" else pats
    if K == 2:
        pats = [(0.02, c), (0.35, 2.9), (c30, c)]
        return pats[:2] if tier == "quick" else pats
    if K == 3:
        pats = [(0.02, 0.35, 2.9), (2.9, c30, c)]
        return pats[:1] if tier == "quick" else pats
    if K == 4:
        pats = [(0.02, 0.35, 2.9, c), (0.35, 2.9, c30, c)]
        return pats[:1] if tier == "quick" else pats
    raise ValueError(K)


# fixed 4x4 matrix of non-zero mixed-sign coefficients, moderate condition number
COEF = np.array([
    [0.62, -0.31, 0.17, 0.45],
    [0.48, 0.57, -0.66, 0.23],
    [-0.29, 0.41, 0.52, -0.71],
    [0.35, 0.26, 0.33, 0.58],
])


def coeffs(K, M, rot=0):
    """K x M block of the fixed matrix (rows rotated by `rot` so two shells differ)."""
    rows = [(i + rot) % 4 for i in range(K)]
    return COEF[rows][:, :M]


GEOMS = ["coincident", "generic", "z", "far12x", "tail28", "x", "y", "far", "far20z", "far33y", "tail22", "tail25", "tail31", "tail34",
         "closeT", "near05", "nearfar", "sumzero"]
# sumzero: a symmetric layout (square-planar / octahedral neighbours): the displacement (0.75, -0.75, 0) has
# components that sum to EXACTLY zero; the caller puts centre A on dyadic coordinates so that this is exact
SUMZERO_A = (0.25, -0.5, 0.75)
# nearfar: the two centres 3e-4 bohr apart (a ghost / displaced-geometry centre) AND the pair ~60 bohr from the
# coordinate origin (the caller adds FAR_OFFSET to both): distinct centres that a relative-tolerance test confuses
FAR_OFFSET = (40.0, -35.0, 30.0)


def displacement(geom, tag="d", mu=None, mu_max=None):
    """Displacement of centre B from centre A for a geometry class.
    tailNN: distance chosen so that mu R^2 = NN for the most diffuse primitive pair (mu = ab/(a+b)): the Gaussian
    product factor is e^-NN there, i.e. on the ladder 3e-10 ... 2e-15 where truncation / screening thresholds live,
    while high angular momentum can still lift the integral above the tolerance."""
    d = hfloat(tag + "len", 0.7, 1.6)
    if geom.startswith("tail"):
        X = float(geom[4:])
        R = min(60.0, (X / mu) ** 0.5)
        u = (0.96, 0.2, -0.19)
        n = sum(v * v for v in u) ** 0.5
        return tuple(R * v / n for v in u)
    if geom == "coincident":
        return (0.0, 0.0, 0.0)
    if geom == "sumzero":
        return (0.75, -0.75, 0.0)
    if geom in ("closeT", "near05", "nearfar"):
        # nearly coincident centres (same basis at a slightly displaced geometry): closeT puts the TIGHTEST primitive
        # pair at mu R^2 = 1.3 so that tight-tight products still carry weight; near05 is 0.05 bohr
        u = (0.61, -0.52, 0.6)
        n = sum(v * v for v in u) ** 0.5
        R = {"closeT": (1.3 / (mu_max or 1.0)) ** 0.5, "near05": 0.05, "nearfar": 3e-4}[geom]
        return tuple(R * v / n for v in u)
    if geom == "x":
        return (d, 0.0, 0.0)
    if geom == "y":
        return (0.0, -d, 0.0)
    if geom == "z":
        return (0.0, 0.0, d)
    if geom == "generic":
        return (hfloat(tag + "gx", 0.4, 0.9), -hfloat(tag + "gy", 0.9, 1.4), hfloat(tag + "gz", 0.15, 0.4))
    if geom == "far12x":  # long-range tail along one axis (diffuse high-l functions still overlap measurably)
        return (12.0 + hfloat(tag + "f12", 0.0, 0.5), 0.3, -0.2)
    if geom == "far20z":
        return (0.2, -0.1, 20.0 + hfloat(tag + "f20", 0.0, 1.0))
    if geom == "far33y":
        return (0.0, -(33.0 + hfloat(tag + "f33", 0.0, 2.0)), 0.4)
    if geom == "far":
        return (hfloat(tag + "fx", 4.0, 5.0), hfloat(tag + "fy", 3.0, 4.0), -hfloat(tag + "fz", 5.0, 6.0))
    raise ValueError(geom)


def generic_center(tag="A"):
    return tuple(hvec("centre" + tag, 3, -0.8, 0.8))


def add(a, b):
    return tuple(x + y for x, y in zip(a, b))


def shell(l, center, K=1, M=1, ctype="cartesian", pat=0, rot=0, tier="thorough", tabulated=False):
    """tabulated=True: coefficients as published tables give them - each column normalised, then rounded to seven
    decimals, so that the contraction normalisation constant is 1 to within 1e-6 but not exactly 1."""
    pats = exp_patterns(l, K, tier)
    e = pats[pat % len(pats)]
    sh = RefShell(l, center, e, coeffs(K, M, rot), ctype)
    if tabulated:
        from .ref.shells import contraction_norms

        N = [float(x) for x in contraction_norms(sh)]
        co = np.array(sh.coeffs) * np.array(N)[None, :]
        sh = sh.with_(coeffs=np.round(co, 7))
    return sh


# shape ladder: pairwise different (l, K, M) so every block of a multi-shell basis has its own size
LADDER = [(0, 2, 1), (1, 1, 2), (2, 3, 1), (3, 1, 3), (4, 2, 2), (5, 1, 1), (2, 4, 2), (1, 2, 3)]


def ladder_shell(i, center, ctype, lmax=5, tier="thorough"):
    l, K, M = LADDER[i % len(LADDER)]
    if l > lmax:
        l = l % (lmax + 1)
    pat = i % 2
    return shell(l, center, K, M, ctype, pat=pat, rot=i, tier=tier)


def molecule_centers(n, tag="mol"):
    """n pairwise distinct generic centres within ~1.5 bohr of the origin, first one generic."""
    out = []
    for i in range(n):
        out.append(tuple(hvec("%s%d" % (tag, i), 3, -1.2, 1.2)))
    return out


def type_patterns(n):
    return list(itertools.product(["cartesian", "spherical"], repeat=n))


def order_triples(maxo=4):
    return [(i, j, k) for i in range(maxo + 1) for j in range(maxo + 1) for k in range(maxo + 1)]
