#!/venv/bin/python
"""Evaluate a seeded change (patch) against the checks.  Not registered in the manifest.

  mutate.py <patch.diff> [--checks C01,C05|all] [--tier quick] [--tests] [--demo demo.py]

Creates a scratch git worktree of /repo (outside /repo and /verif), applies the patch, optionally runs the
repository's own test suite and the demonstration there, runs the selected checks with
GBASIS_VERIF_REPO pointing at the worktree (replays / evidence redirected to the scratch area so the
committed evidence is untouched), prints one line per check, and removes the worktree.
"""
import argparse
import hashlib
import json
import os
import shutil
import subprocess
import sys
import time

VERIF = os.path.dirname(os.path.dirname(os.path.abspath(__file__)))
PY = "/venv/bin/python"
ALL = ["C%02d" % i for i in range(1, 21)]


def sh(cmd, **kw):
    return subprocess.run(cmd, shell=True, stdout=subprocess.PIPE, stderr=subprocess.STDOUT, text=True, **kw)


def main():
    ap = argparse.ArgumentParser()
    ap.add_argument("patch")
    ap.add_argument("--checks", default="all")
    ap.add_argument("--tier", default="quick")
    ap.add_argument("--tests", action="store_true")
    ap.add_argument("--demo")
    ap.add_argument("--base", default="HEAD")
    ap.add_argument("--json")
    a = ap.parse_args()
    patch = os.path.abspath(a.patch)
    tag = hashlib.sha1((patch + str(time.time())).encode()).hexdigest()[:8]
    root = "/tmp/mut_%s" % tag
    wt = os.path.join(root, "wt")
    os.makedirs(root)
    res = {"patch": patch, "checks": {}}
    try:
        r = sh("git -C /repo worktree add -q --detach %s %s" % (wt, a.base))
        if r.returncode:
            print(r.stdout)
            sys.exit(2)
        if a.demo:
            r0 = sh("PYTHONPATH=%s %s %s" % (wt, PY, os.path.abspath(a.demo)), cwd=root)
            res["demo_unpatched_exit"] = r0.returncode
        r = sh("git -C %s apply %s" % (wt, patch))
        if r.returncode:
            print("PATCH DOES NOT APPLY\n" + r.stdout)
            sys.exit(2)
        if a.demo:
            r1 = sh("PYTHONPATH=%s %s %s" % (wt, PY, os.path.abspath(a.demo)), cwd=root)
            res["demo_patched_exit"] = r1.returncode
            res["demo_output"] = r1.stdout[-600:]
            print("demo: unpatched exit %s, patched exit %s" % (res["demo_unpatched_exit"], r1.returncode))
        if a.tests:
            r = sh("cd %s && PYTHONPATH=%s env -u GBASIS_VERIF %s -m pytest -q -p no:cacheprovider -n 8 --timeout=900 2>&1 | tail -3"
                   % (wt, wt, PY))
            res["tests"] = r.stdout.strip().split("\n")[-1]
            print("tests:", res["tests"])
        checks = ALL if a.checks == "all" else a.checks.split(",")
        env = dict(os.environ, GBASIS_VERIF_REPO=wt, VERIF_REPLAY_DIR=os.path.join(root, "replays"),
                   VERIF_EVIDENCE_DIR=os.path.join(root, "evidence"))
        for c in checks:
            t0 = time.time()
            r = subprocess.run([PY, os.path.join(VERIF, "mc", "run.py"), c, "--tier", a.tier], cwd=VERIF, env=env,
                               stdout=subprocess.PIPE, stderr=subprocess.STDOUT, text=True)
            lines = r.stdout.split("\n")
            nv = sum(1 for l in lines if l.startswith("VIOLATION"))
            first = next((l.strip()[:300] for l in lines if l.startswith("    {")), "")
            summ = next((l for l in lines if l.startswith(c + " tier")), "")
            verdict = {0: "silent", 1: "KILLED"}.get(r.returncode, "exit %d" % r.returncode)
            res["checks"][c] = {"exit": r.returncode, "violation_lines": nv, "first": first, "summary": summ,
                                "wall": round(time.time() - t0, 1)}
            print("%s %-7s %s %s" % (c, verdict, summ.split("violations=")[-1] if summ else "", first[:160]))
            if r.returncode not in (0, 1):
                print("\n".join(lines[-15:]))
    finally:
        sh("git -C /repo worktree remove --force %s" % wt)
        shutil.rmtree(root, ignore_errors=True)
    if a.json:
        json.dump(res, open(a.json, "w"), indent=1)


if __name__ == "__main__":
    main()
